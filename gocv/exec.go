package main

import (
	"os"
	"fmt"
	"go/token"
	"go/types"
	"sort"
	"strings"

	"golang.org/x/tools/go/ssa"
)

type pathState struct {
	reach string
	st    *St
}

type Frame struct {
	fn        *ssa.Function
	id        int
	regs      map[ssa.Value]Val
	params    []Val
	binds     []Val
	locals    map[*ssa.Alloc]*Comp
	localProv map[*ssa.Alloc]ssa.Value // single-store locals: the stored SSA value
	armed     map[*ssa.Defer]*Comp
	deferList []*ssa.Defer
	contract  *FuncContract
	loops     map[*ssa.BasicBlock]*loopInfo
	loopOrd   map[*ssa.BasicBlock]int
	depth     int
	caller    *Frame
	entry     *St // state at function entry (for old())
	isTop     bool
	callIdx   map[string]int
	name      string
	private   map[*ssa.Alloc]bool
	curBlock  *ssa.BasicBlock
	curIdx    int
	inlineOrd int // k-th expansion of this callee within the function under verification
	evalAtExit bool
	escSites  map[*ssa.Alloc][]ssa.Instruction
}

type loopInfo struct {
	headSt *St // state at the start of the current iteration (after havoc and invariant)
	cutAt   int // >0: index into e.out of the context barrier set when this loop was entered
	backIns []edgeIn // back edges collected for the step clauses (checked once on the merged state)
	head   *ssa.BasicBlock
	blocks map[*ssa.BasicBlock]bool
	minPos token.Pos
	ord    int
}

type edgeIn struct {
	from  *ssa.BasicBlock
	reach string
	st    *St
}

type retRec struct {
	reach string
	st    *St
	vals  []Val
}

const maxInlineDepth = 6

func (e *Enc) newFrame(fn *ssa.Function, caller *Frame) *Frame {
	e.frameSeq++
	fr := &Frame{fn: fn, id: e.frameSeq, regs: map[ssa.Value]Val{}, locals: map[*ssa.Alloc]*Comp{}, localProv: map[*ssa.Alloc]ssa.Value{},
		armed: map[*ssa.Defer]*Comp{}, loops: map[*ssa.BasicBlock]*loopInfo{}, caller: caller, callIdx: map[string]int{}, name: shortFuncName(fn)}
	if caller != nil {
		fr.depth = caller.depth + 1
	}
	fr.contract = e.cs.Funcs[fr.name]
	// single-store locals
	stores := map[*ssa.Alloc][]ssa.Value{}
	for _, b := range fn.Blocks {
		for _, ins := range b.Instrs {
			if s, ok := ins.(*ssa.Store); ok {
				if a, ok := s.Addr.(*ssa.Alloc); ok {
					stores[a] = append(stores[a], s.Val)
				}
			}
			if d, ok := ins.(*ssa.Defer); ok {
				fr.deferList = append(fr.deferList, d)
			}
		}
	}
	for a, vs := range stores {
		if len(vs) == 1 {
			fr.localProv[a] = vs[0]
		}
	}
	e.findLoops(fr)
	return fr
}

// findLoops computes natural loops from back edges (target dominates source).
func (e *Enc) findLoops(fr *Frame) {
	fn := fr.fn
	for _, b := range fn.Blocks {
		for _, s := range b.Succs {
			if s.Dominates(b) {
				li := fr.loops[s]
				if li == nil {
					li = &loopInfo{head: s, blocks: map[*ssa.BasicBlock]bool{s: true}}
					fr.loops[s] = li
				}
				// walk predecessors from b until head
				var stack []*ssa.BasicBlock
				if !li.blocks[b] {
					li.blocks[b] = true
					stack = append(stack, b)
				}
				for len(stack) > 0 {
					x := stack[len(stack)-1]
					stack = stack[:len(stack)-1]
					for _, p := range x.Preds {
						if !li.blocks[p] {
							li.blocks[p] = true
							stack = append(stack, p)
						}
					}
				}
			}
		}
	}
	var lis []*loopInfo
	for _, li := range fr.loops {
		li.minPos = token.Pos(1 << 60)
		for b := range li.blocks {
			for _, ins := range b.Instrs {
				if p := ins.Pos(); p.IsValid() && p < li.minPos {
					li.minPos = p
				}
			}
		}
		lis = append(lis, li)
	}
	sort.Slice(lis, func(i, j int) bool {
		if lis[i].minPos != lis[j].minPos {
			return lis[i].minPos < lis[j].minPos
		}
		return lis[i].head.Index < lis[j].head.Index
	})
	for i, li := range lis {
		li.ord = i + 1
	}
}

func isBackEdge(from, to *ssa.BasicBlock) bool { return to.Dominates(from) }

// topoOrder returns blocks in a topological order of the CFG without back edges.
func topoOrder(fn *ssa.Function) []*ssa.BasicBlock {
	indeg := map[*ssa.BasicBlock]int{}
	for _, b := range fn.Blocks {
		for _, s := range b.Succs {
			if !isBackEdge(b, s) {
				indeg[s]++
			}
		}
	}
	var order []*ssa.BasicBlock
	var ready []*ssa.BasicBlock
	for _, b := range fn.Blocks {
		if indeg[b] == 0 {
			ready = append(ready, b)
		}
	}
	for len(ready) > 0 {
		// pick the smallest index for determinism
		mi := 0
		for i := range ready {
			if ready[i].Index < ready[mi].Index {
				mi = i
			}
		}
		b := ready[mi]
		ready = append(ready[:mi], ready[mi+1:]...)
		order = append(order, b)
		for _, s := range b.Succs {
			if !isBackEdge(b, s) {
				indeg[s]--
				if indeg[s] == 0 {
					ready = append(ready, s)
				}
			}
		}
	}
	return order
}

// mergeStates joins incoming edges into one path state.
func (e *Enc) mergeStates(ins []edgeIn, label string) pathState {
	if len(ins) == 1 {
		return pathState{ins[0].reach, ins[0].st}
	}
	var rs []string
	for _, in := range ins {
		rs = append(rs, in.reach)
	}
	reach := e.defineFresh("R_"+label, "Bool", or(rs...))
	keys := map[string]bool{}
	for _, in := range ins {
		for k := range in.st.v {
			keys[k] = true
		}
	}
	st := &St{v: map[string]string{}}
	for _, k := range sortedKeys(keys) {
		c := e.comps[k]
		first := e.get(ins[0].st, c)
		same := true
		for _, in := range ins[1:] {
			if e.get(in.st, c) != first {
				same = false
				break
			}
		}
		if same {
			st.v[k] = first
			continue
		}
		if strings.HasPrefix(c.Sort, "(Array") {
			// arrays: a fresh symbol with guarded equalities (E-matching friendly)
			n := e.fresh(c.Name)
			e.declare(n, c.Sort)
			for _, in := range ins {
				e.assume(implies(in.reach, eq(n, e.get(in.st, c))))
			}
			st.v[k] = n
			continue
		}
		// ite chain
		term := e.get(ins[len(ins)-1].st, c)
		for i := len(ins) - 2; i >= 0; i-- {
			term = ite(ins[i].reach, e.get(ins[i].st, c), term)
		}
		st.v[k] = e.defineFresh(c.Name, c.Sort, term)
	}
	return pathState{reach, st}
}

// runFunction symbolically executes fr.fn from the entry state; returns the merged exit.
func (e *Enc) runFunction(fr *Frame, entry pathState) (pathState, []Val, bool) {
	fn := fr.fn
	if fn.Blocks == nil {
		e.errorf("%s: no body", fr.name)
		return entry, nil, false
	}
	fr.entry = entry.st
	prevFr := e.curFr
	e.curFr = fr
	defer func() { e.curFr = prevFr }()
	incoming := map[*ssa.BasicBlock][]edgeIn{}
	var rets []retRec
	order := topoOrder(fn)
	for _, b := range order {
		var cur pathState
		if b == fn.Blocks[0] {
			cur = pathState{entry.reach, entry.st.clone()}
		} else {
			ins := incoming[b]
			if li := fr.loops[b]; li != nil {
				if len(ins) == 0 {
					continue
				}
				fr.curBlock, fr.curIdx = b, 0
				cur = e.enterLoop(fr, li, ins)
			} else {
				if len(ins) == 0 {
					continue // unreachable (e.g. recover block)
				}
				m := e.mergeStates(ins, fmt.Sprintf("f%d_b%d", fr.id, b.Index))
				cur = pathState{m.reach, m.st.clone()}
				// phis
				for _, ins2 := range b.Instrs {
					phi, ok := ins2.(*ssa.Phi)
					if !ok {
						break
					}
					e.execPhi(fr, phi, b, ins)
				}
			}
		}
		for insIdx, ins := range b.Instrs {
			fr.curBlock, fr.curIdx = b, insIdx
			if _, ok := ins.(*ssa.Phi); ok {
				continue
			}
			switch x := ins.(type) {
			case *ssa.If:
				c := e.val(fr, x.Cond).T
				tr := e.defineFresh(fmt.Sprintf("R_f%d_b%d_t", fr.id, b.Index), "Bool", and(cur.reach, c))
				fl := e.defineFresh(fmt.Sprintf("R_f%d_b%d_f", fr.id, b.Index), "Bool", and(cur.reach, not(c)))
				e.pushEdge(fr, incoming, b, b.Succs[0], tr, cur.st)
				e.pushEdge(fr, incoming, b, b.Succs[1], fl, cur.st)
			case *ssa.Jump:
				e.pushEdge(fr, incoming, b, b.Succs[0], cur.reach, cur.st)
			case *ssa.Return:
				var vs []Val
				for _, r := range x.Results {
					vs = append(vs, e.val(fr, r))
				}
				rets = append(rets, retRec{cur.reach, cur.st, vs})
			case *ssa.Panic:
				e.execPanic(fr, x, cur)
			default:
				e.execInstr(fr, ins, &cur)
			}
		}
	}
	e.checkSteps(fr)
	fr.evalAtExit = true
	if len(rets) == 0 {
		// function never returns normally
		return pathState{"false", entry.st}, nil, true
	}
	var ins []edgeIn
	for _, r := range rets {
		ins = append(ins, edgeIn{nil, r.reach, r.st})
	}
	m := e.mergeStates(ins, fmt.Sprintf("f%d_exit", fr.id))
	nres := len(rets[0].vals)
	results := make([]Val, nres)
	for i := 0; i < nres; i++ {
		v := rets[len(rets)-1].vals[i]
		term := v.T
		for j := len(rets) - 2; j >= 0; j-- {
			term = ite(rets[j].reach, rets[j].vals[i].T, term)
		}
		results[i] = Val{T: e.defineFresh(fmt.Sprintf("ret_f%d_%d", fr.id, i), v.S, term), S: v.S, Typ: v.Typ}
		if len(rets) == 1 {
			results[i] = v
		}
	}
	return pathState{m.reach, m.st.clone()}, results, true
}

func (e *Enc) pushEdge(fr *Frame, incoming map[*ssa.BasicBlock][]edgeIn, from, to *ssa.BasicBlock, reach string, st *St) {
	if isBackEdge(from, to) {
		e.backEdge(fr, fr.loops[to], from, reach, st)
		return
	}
	incoming[to] = append(incoming[to], edgeIn{from, reach, st})
}

func (e *Enc) execPhi(fr *Frame, phi *ssa.Phi, b *ssa.BasicBlock, ins []edgeIn) {
	s := e.sortOf(phi.Type())
	// map pred block -> edge value; several edges may come from the same pred (if both branches)
	var term string
	for i := len(ins) - 1; i >= 0; i-- {
		idx := -1
		for j, p := range b.Preds {
			if p == ins[i].from {
				idx = j
				break
			}
		}
		v := e.val(fr, phi.Edges[idx]).T
		if term == "" {
			term = v
		} else {
			term = ite(ins[i].reach, v, term)
		}
	}
	fr.regs[phi] = Val{T: e.defineFresh(fmt.Sprintf("phi_f%d_%s", fr.id, phi.Name()), s, term), S: s, Typ: phi.Type()}
}

// ---------- loops ----------

// loopMods computes the components possibly modified by the loop body.
func (e *Enc) loopMods(fr *Frame, li *loopInfo) *ModSet {
	ms := newModSet()
	defer func() {
		// call/receive ghosts count direct calls only: keep those of the loop body (and of
		// callees that are expanded in place), drop what callee summaries contributed
		for f := range ms.Fams {
			if strings.HasPrefix(f, "G:calls:") || f == "G:recv" || f == "G:chan" {
				delete(ms.Fams, f)
			}
		}
		var blocks []*ssa.BasicBlock
		for b := range li.blocks {
			blocks = append(blocks, b)
		}
		e.directCallFams(fr.fn, blocks, ms, 0, map[*ssa.Function]bool{})
	}()
	for b := range li.blocks {
		for _, ins := range b.Instrs {
			e.mods.instrMods(fr.fn, ins, ms)
			// range iterators advanced in the loop
			if nx, ok := ins.(*ssa.Next); ok {
				ms.add("IT:" + nx.Iter.Name())
			}
			if d, ok := ins.(*ssa.Defer); ok {
				ms.add("DEFER:" + fmt.Sprint(d.Pos()))
			}
		}
	}
	return ms
}

func (e *Enc) loopIsCut(fr *Frame, li *loopInfo) bool {
	if fr.contract != nil && fr.isTop && fr.contract.LoopCut[li.ord] {
		return true
	}
	if !fr.isTop && e.topContract != nil {
		for _, c := range e.topContract.InlineLoopCut {
			if c.Loop == li.ord && calleeMatches(c.Callee, fr.name) && (c.CallK == 0 || c.CallK == fr.inlineOrd) {
				return true
			}
		}
	}
	return false
}

func (e *Enc) enterLoop(fr *Frame, li *loopInfo, ins []edgeIn) pathState {
	m := e.mergeStates(ins, fmt.Sprintf("f%d_loop%d_entry", fr.id, li.ord))
	entrySt := m.st
	// 1. invariant holds on entry
	e.checkInvariant(fr, li, m.reach, entrySt, "entry")
	if e.loopIsCut(fr, li) {
		li.cutAt = len(e.out)
		if li.cutAt == 0 {
			li.cutAt = 1
		}
	}
	// 2. havoc loop-modified state
	st := entrySt.clone()
	ms := e.loopMods(fr, li)
	e.havocMods(fr, st, ms, true)
	// captured locals that no callee can reach and that the loop body itself does not store to
	// keep their value
	e.restoreLoopPrivateCells(fr, li, entrySt, st)
	reach := e.fresh(fmt.Sprintf("R_f%d_loop%d_head", fr.id, li.ord))
	e.define(reach, "Bool", m.reach)
	// alloc only grows
	e.allocMonotone(entrySt, st)
	e.clockMonotone(entrySt, st)
	e.countersMonotone(entrySt, st)
	// 2a. map ranges over a map that the loop cannot mutate: every key produced so far was in
	// the map when the range started
	for _, ins := range li.head.Instrs {
		nx, ok := ins.(*ssa.Next)
		if !ok {
			continue
		}
		it := fr.regs[nx.Iter].It
		if it == nil || it.mapTyp == nil {
			continue
		}
		if os.Getenv("GOCV_NOAUTOVIS") != "" || ms.Top || ms.Fams["M:"+typeStr(it.mapTyp)] {
			continue
		}
		ks := e.sortOf(it.mapTyp.Key())
		vis := e.get(st, e.comps[it.visited])
		e.assumeIf(reach, fmt.Sprintf("(forall ((k %s)) (! (=> (select %s k) (select %s k)) :pattern ((select %s k))))", ks, vis, it.startDom, vis))
	}
	// 2a'. the compiler-generated index of a range-over-slice loop starts at -1 and is only
	// ever incremented
	for a, c := range fr.locals {
		if a.Comment == "rangeindex" {
			if v, ok := st.v[c.Name]; ok {
				e.assumeIf(reach, "(>= "+v+" (- 1))")
			}
		}
	}
	// 2b. loop frame: locations outside the function's modifies clause are unchanged so far
	if e.framesOn() {
		goals := e.frameGoals(st)
		for _, name := range sortedKeys(goals) {
			e.assumeIf(reach, goals[name])
		}
	}
	// 3. assume invariant
	for _, c := range e.loopInvariants(fr, li) {
		t, err := e.evalClause(fr, c, st, fr.entry, nil, true)
		if err != nil {
			e.errorf("%s: loop %d invariant %s: %v", fr.name, li.ord, c.Label, err)
			continue
		}
		e.assumeIf(reach, t)
	}
	if fr.contract != nil {
		for _, c := range fr.contract.LoopAssume[li.ord] {
			t, err := e.evalClause(fr, c, st, fr.entry, nil, true)
			if err != nil {
				e.errorf("%s: loop %d assume %s: %v", fr.name, li.ord, c.Label, err)
				continue
			}
			e.assumeIf(reach, t)
		}
	}
	li.headSt = st.clone()
	return pathState{reach, st}
}

func (e *Enc) loopInvariants(fr *Frame, li *loopInfo) []*Clause {
	var out []*Clause
	if fr.contract != nil {
		out = append(out, fr.contract.LoopInv[li.ord]...)
	}
	if !fr.isTop && e.topContract != nil {
		// invariants the function under verification supplies for loops of expanded callees
		for _, c := range e.topContract.InlineLoopInv {
			if c.Loop == li.ord && calleeMatches(c.Callee, fr.name) && (c.CallK == 0 || c.CallK == fr.inlineOrd) {
				out = append(out, c)
			}
		}
	}
	return out
}

func (e *Enc) checkInvariant(fr *Frame, li *loopInfo, reach string, st *St, when string) {
	for i, c := range e.loopInvariants(fr, li) {
		lbl := c.Label
		if lbl == "" {
			lbl = fmt.Sprintf("%d", i+1)
		}
		parts := splitConjuncts(c.Expr)
		for j, part := range parts {
			pc := &Clause{Kind: c.Kind, Label: c.Label, Text: part.String(), Expr: part, Loop: c.Loop, File: c.File, Line: c.Line}
			t, err := e.evalClause(fr, pc, st, fr.entry, nil, true)
			if err != nil {
				e.errorf("%s: loop %d invariant %s: %v", fr.name, li.ord, c.Label, err)
				continue
			}
			l := lbl
			if len(parts) > 1 {
				l = fmt.Sprintf("%s.%d", lbl, j+1)
			}
			e.addObl("inv", fmt.Sprintf("%sloop%d:%s:%s", e.framePrefix(fr), li.ord, l, when), reach, t, li.minPos, pc.Text)
		}
	}
}

func (e *Enc) backEdge(fr *Frame, li *loopInfo, from *ssa.BasicBlock, reach string, st *St) {
	e.checkInvariant(fr, li, reach, st, "back")
	if fr.contract != nil && li.headSt != nil && len(fr.contract.LoopStep[li.ord]) > 0 {
		li.backIns = append(li.backIns, edgeIn{from, reach, st})
	}
	if e.framesOn() {
		goals := e.frameGoals(st)
		for _, name := range sortedKeys(goals) {
			c := e.comps[name]
			e.addObl("frame", fmt.Sprintf("%sloop%d:%s", e.framePrefix(fr), li.ord, c.Name), reach, goals[name], li.minPos, "loop body changes only declared locations of "+c.Fam)
		}
	}
}


// checkSteps: per-iteration postconditions, checked once on the merge of all back edges.
func (e *Enc) checkSteps(fr *Frame) {
	if fr.contract == nil {
		return
	}
	var lis []*loopInfo
	seen := map[*loopInfo]bool{}
	for _, b := range fr.fn.Blocks {
		if li := fr.loops[b]; li != nil && !seen[li] {
			seen[li] = true
			lis = append(lis, li)
		}
	}
	for _, li := range lis {
		if len(li.backIns) == 0 || li.headSt == nil {
			continue
		}
		m := e.mergeStates(li.backIns, fmt.Sprintf("f%d_loop%d_back", fr.id, li.ord))
		st, reach := m.st, m.reach
		// resolve local names (rangeindex, shadowed variables) as seen from inside the loop
		savedBlock, savedIdx := fr.curBlock, fr.curIdx
		if from := li.backIns[0].from; from != nil {
			fr.curBlock, fr.curIdx = from, len(from.Instrs)-1
		}
		for i, c := range fr.contract.LoopStep[li.ord] {
			lbl := c.Label
			if lbl == "" {
				lbl = fmt.Sprintf("%d", i+1)
			}
			parts := splitConjuncts(c.Expr)
			for j, part := range parts {
				pc := &Clause{Kind: c.Kind, Label: c.Label, Text: part.String(), Expr: part, Loop: c.Loop, File: c.File, Line: c.Line}
				ctx := e.frameCtx(fr, st, fr.entry, true)
				ctx.loop = li
				ctx.iter = li.headSt
				sv, err := e.evalSpec(pc.Expr, ctx)
				if err != nil || sv.Sort != "Bool" {
					e.errorf("%s: loop %d step %s: %v", fr.name, li.ord, c.Label, err)
					continue
				}
				l := lbl
				if len(parts) > 1 {
					l = fmt.Sprintf("%s.%d", lbl, j+1)
				}
				e.addObl("step", fmt.Sprintf("%sloop%d:%s", e.framePrefix(fr), li.ord, l), reach, sv.T, li.minPos, pc.Text)
			}
		}
		li.backIns = nil
		fr.curBlock, fr.curIdx = savedBlock, savedIdx
	}
}

// framesOn: the function under verification has a modifies clause that is being checked.
func (e *Enc) framesOn() bool {
	fc := e.topContract
	return fc != nil && !fc.NoFrame && (fc.HasMod || len(fc.Ensures) > 0) && e.topFrame != nil && e.topFrame.entry != nil
}

func (e *Enc) framePrefix(fr *Frame) string {
	if fr.isTop {
		return ""
	}
	return fr.name + "/"
}

// inlineObls: obligations inside inlined callees are generated too (they are part of the
// caller's proof since the body replaces the contract).
func (e *Enc) inlineObls(fr *Frame) bool { return true }

func (e *Enc) allocMonotone(before, after *St) {
	a := e.allocComp()
	b0, b1 := e.get(before, a), e.get(after, a)
	if b0 != b1 {
		if allocCounter {
			e.assume(fmt.Sprintf("(<= %s %s)", b0, b1))
		} else {
			e.assume(fmt.Sprintf("(forall ((o Ref)) (! (=> (select %s o) (select %s o)) :pattern ((select %s o))))", b0, b1, b1))
		}
	}
}

// countersMonotone: call/receive counters never decrease across loop iterations.
func (e *Enc) countersMonotone(before, after *St) {
	for _, name := range e.compOrder {
		c := e.comps[name]
		if !(strings.HasPrefix(c.Fam, "G:calls:") || c.Fam == "G:recv" || c.Fam == "G:chan") {
			continue
		}
		b0, b1 := e.get(before, c), e.get(after, c)
		if b0 == b1 {
			continue
		}
		switch {
		case strings.HasPrefix(name, "calls_") || name == "recvtotal":
			e.assume(fmt.Sprintf("(>= %s %s)", b1, b0))
		case strings.HasPrefix(name, "firstret"):
			// once the first call has happened the recorded first result is fixed
			us := strings.Index(name, "_")
			if us > 0 {
				if cc := e.comps["calls_"+name[us+1:]]; cc != nil {
					e.assume(implies(fmt.Sprintf("(> %s %s.0)", e.get(before, cc), cc.Name), eq(b1, b0)))
				}
			}
		case strings.HasPrefix(name, "retcount_") || name == "recvcount":
			e.assume(fmt.Sprintf("(forall ((v Int)) (! (>= (select %s v) (select %s v)) :pattern ((select %s v))))", b1, b0, b1))
		}
	}
}

func (e *Enc) clockMonotone(before, after *St) {
	c := e.clockComp()
	b0, b1 := e.get(before, c), e.get(after, c)
	if b0 != b1 {
		e.assume(fmt.Sprintf("(>= %s %s)", b1, b0))
	}
}

// havocMods havocs every known component whose family is in ms.
func (e *Enc) havocMods(fr *Frame, st *St, ms *ModSet, includeLocals bool) {
	var hv []*Comp
	forCall := !includeLocals
	oldSyms := map[string]string{}
	var hvLocals []*Comp
	defer func() {
		// havocked local variables still hold well-formed, allocated values
		for _, c := range hvLocals {
			e.specLoadFact(e.get(st, c), c.Sort, st)
		}
	}()
	anyMon := ms.Fams["MONITOR"]
	for k := range ms.Fams {
		if strings.HasPrefix(k, "MONITOR:") || strings.HasPrefix(k, "MONITORCOND:") {
			anyMon = true
		}
	}
	if anyMon {
		// a lock acquisition / wait inside: the protected state of that monitor (of every
		// monitor when the mutex cannot be identified) may change
		ms2 := newModSet()
		ms2.union(ms)
		ms2.Top = ms.Top
		for k := range ms.Fams {
			ms2.Fams[k] = true
		}
		for _, m := range e.cs.Monitors {
			hit := ms.Fams["MONITOR"] || ms.Fams["MONITOR:"+e.monName(m)+"."+m.Mutex]
			for _, cf := range m.Conds {
				if ms.Fams["MONITORCOND:"+e.monName(m)+"."+cf] {
					hit = true
				}
			}
			if !hit {
				continue
			}
			for _, c := range e.protectedComps(m) {
				ms2.add(c.Fam)
			}
		}
		ms2.add("LIN")
		ms = ms2
	}
	for _, name := range append([]string{}, e.compOrder...) {
		c := e.comps[name]
		if c.Kind == "local" {
			if includeLocals && (ms.Fams[c.Fam] || ms.Top && false) {
				e.havocComp(st, c, "")
				hvLocals = append(hvLocals, c)
			}
			continue
		}
		if forCall && c.Fam == "G:held" {
			// callees are lock-balanced: they return holding exactly the locks they were called with
			e.note("callees are assumed lock-balanced (the set of held monitor locks is the same before and after a call)")
			continue
		}
		if forCall && (strings.HasPrefix(c.Fam, "G:calls:") || c.Fam == "G:recv" || c.Fam == "G:chan") {
			// calls()/lastret()/lastarg() count the direct calls of the function under
			// verification only; calls made inside a callee do not touch them
			continue
		}
		isCallGhost := strings.HasPrefix(c.Fam, "G:calls:") || c.Fam == "G:recv" || c.Fam == "G:chan"
		// Top stands for unknown code of this module: it cannot touch call ghosts, and user
		// ghost variables change only through contracts that declare them
		tracked := false
		if c.Kind == "ghost" && strings.HasPrefix(c.Name, "ghost_") {
			if pats, ok := e.cs.Tracks[strings.TrimPrefix(c.Name, "ghost_")]; ok {
				tracked = ms.Top || famsMatch(ms, pats)
			}
		}
		if tracked || (ms.Top && !isCallGhost && !(c.Kind == "ghost" && strings.HasPrefix(c.Name, "ghost_"))) || ms.Fams[c.Fam] {
			oldSyms[c.Name] = e.get(st, c)
			e.havocComp(st, c, "")
			hv = append(hv, c)
		}
	}
	if forCall && fr != nil {
		e.restorePrivateCells(fr, st, oldSyms)
		e.restoreOwned(fr, st, oldSyms)
	}
	e.linkMapFacts(st, ms)
	e.assumeClosed(st, hv)
	if ms.Top {
		e.topHavoc()
	}
}

var topHavocs int

func (e *Enc) topHavoc() { topHavocs++ }

// linkMapFacts re-assumes the len/domain link for havocked map components.
func (e *Enc) linkMapFacts(st *St, ms *ModSet) {
	for _, name := range e.compOrder {
		c := e.comps[name]
		if c.Kind != "map-d" {
			continue
		}
		if !(ms.Top || ms.Fams[c.Fam]) {
			continue
		}
		lname := "ML_" + strings.TrimPrefix(name, "MD_")
		lc := e.comps[lname]
		if lc == nil {
			continue
		}
		ks := keySortOfMapD(c.Sort)
		for _, a := range e.mapLinkFacts(e.get(st, c), e.get(st, lc), ks) {
			e.assume(a)
		}
	}
}

func keySortOfMapD(s string) string {
	// "(Array Ref (Array K Bool))"
	inner := strings.TrimPrefix(s, "(Array Ref (Array ")
	inner = strings.TrimSuffix(inner, " Bool))")
	return inner
}

// ---------- values ----------

func (e *Enc) val(fr *Frame, v ssa.Value) Val {
	switch x := v.(type) {
	case *ssa.Const:
		return e.constVal(x)
	case *ssa.Parameter:
		for i, p := range fr.fn.Params {
			if p == x {
				return fr.params[i]
			}
		}
	case *ssa.FreeVar:
		for i, p := range fr.fn.FreeVars {
			if p == x {
				if i < len(fr.binds) {
					return fr.binds[i]
				}
			}
		}
		// unknown binding: symbolic
		n := fmt.Sprintf("fv_f%d_%s", fr.id, sanitize(x.Name()))
		if _, ok := fr.regs[x]; !ok {
			e.declare(n, e.sortOf(x.Type()))
			fr.regs[x] = Val{T: n, S: e.sortOf(x.Type()), Typ: x.Type()}
		}
		return fr.regs[x]
	case *ssa.Global:
		c := e.globalComp(x)
		return Val{T: "gaddr_" + c.Name, S: "Ref", Loc: &Loc{Kind: "global", Comp: c.Name, Typ: x.Type().(*types.Pointer).Elem()}, Typ: x.Type()}
	case *ssa.Function:
		name := "fn_" + sanitize(x.String())
		e.hdrOnce(name, fmt.Sprintf("(declare-const %s Ref)\n(assert (not (= %s nil)))", name, name))
		return Val{T: name, S: "Ref", Fn: x, Typ: x.Type()}
	case *ssa.Builtin:
		return Val{T: "nil", S: "Ref"}
	}
	if r, ok := fr.regs[v]; ok {
		return r
	}
	e.errorf("%s: value %s (%T) used before definition", fr.name, v.Name(), v)
	s := e.sortOf(v.Type())
	n := e.fresh("undef")
	e.declare(n, s)
	return Val{T: n, S: s, Typ: v.Type()}
}

func (e *Enc) setReg(fr *Frame, v ssa.Value, val Val) {
	if val.Typ == nil {
		val.Typ = v.Type()
	}
	if val.S == "" {
		val.S = e.sortOf(v.Type())
	}
	if val.Tup == nil && val.T != "" && !isAtom(val.T) {
		n := fmt.Sprintf("%s_f%d", v.Name(), fr.id)
		if _, dup := fr.regs[v]; dup {
			n = e.fresh(n)
		}
		e.define(n, val.S, val.T)
		val.T = n
	}
	fr.regs[v] = val
}

func (e *Enc) freshVal(base string, t types.Type, cur *pathState) Val {
	s := e.sortOf(t)
	n := e.fresh(base)
	e.declare(n, s)
	v := Val{T: n, S: s, Typ: t}
	e.typeFacts(v, t, cur)
	return v
}

// typeFacts assumes representation invariants of a freshly obtained value of Go type t.
func (e *Enc) typeFacts(v Val, t types.Type, cur *pathState) {
	switch v.S {
	case "Slice":
		e.assume(fmt.Sprintf("(and (>= (s_len %s) 0) (>= (s_off %s) 0) (>= (s_cap %s) (s_len %s)) (=> (= (s_arr %s) nil) (= (s_cap %s) 0)))", v.T, v.T, v.T, v.T, v.T, v.T))
		if cur != nil {
			e.assume(isAlloc(e.get(cur.st, e.allocComp()), "(s_arr "+v.T+")"))
		}
	case "Int":
		if b, ok := t.Underlying().(*types.Basic); ok && b.Info()&types.IsUnsigned != 0 {
			e.assume("(>= " + v.T + " 0)")
		}
	case "Ref":
		if cur != nil {
			switch t.Underlying().(type) {
			case *types.Pointer, *types.Map, *types.Chan:
				e.assume(isAlloc(e.get(cur.st, e.allocComp()), v.T))
			}
		}
	}
}

// ---------- memory ----------

func (e *Enc) loadLoc(l *Loc, st *St) string {
	c := e.comps[l.Comp]
	switch l.Kind {
	case "local", "global":
		return e.get(st, c)
	case "field", "cell":
		return sel(e.get(st, c), l.Base)
	case "elem":
		return sel(sel(e.get(st, c), l.Base), l.Idx)
	}
	panic("bad loc")
}

func (e *Enc) storeLoc(l *Loc, st *St, v string) {
	c := e.comps[l.Comp]
	switch l.Kind {
	case "local", "global":
		e.set(st, c, v)
	case "field", "cell":
		e.set(st, c, store(e.get(st, c), l.Base, v))
	case "elem":
		arr := e.get(st, c)
		e.set(st, c, store(arr, l.Base, store(sel(arr, l.Base), l.Idx, v)))
	}
}

// addrLoc turns a pointer value into a location for element type t.
func (e *Enc) addrLoc(v Val, t types.Type) *Loc {
	if v.Loc != nil {
		return v.Loc
	}
	c := e.cellComp(t)
	return &Loc{Kind: "cell", Comp: c.Name, Base: v.T, Typ: t}
}

// loadStruct builds a struct value from the heap object at ref.
func (e *Enc) loadStruct(ref string, t types.Type, st *St) string {
	u := t.Underlying().(*types.Struct)
	if u.NumFields() == 0 {
		return "unit"
	}
	s := e.sortOf(t)
	var fs []string
	for i := 0; i < u.NumFields(); i++ {
		ft := u.Field(i).Type()
		if isObjStruct(ft) {
			fs = append(fs, e.loadStruct(e.subAddr(t, i, ref), ft, st))
		} else {
			fs = append(fs, sel(e.get(st, e.fieldComp(t, i)), ref))
		}
	}
	return "(mk_" + s + " " + strings.Join(fs, " ") + ")"
}

func (e *Enc) storeStruct(ref string, t types.Type, val string, st *St) {
	u := t.Underlying().(*types.Struct)
	if u.NumFields() == 0 {
		return
	}
	s := e.sortOf(t)
	for i := 0; i < u.NumFields(); i++ {
		ft := u.Field(i).Type()
		acc := fmt.Sprintf("(%s_%s %s)", s, sanitize(u.Field(i).Name()), val)
		if isObjStruct(ft) {
			e.storeStruct(e.subAddr(t, i, ref), ft, acc, st)
		} else {
			c := e.fieldComp(t, i)
			e.set(st, c, store(e.get(st, c), ref, acc))
		}
	}
}

func (e *Enc) zeroStruct(ref string, t types.Type, st *St) {
	u := t.Underlying().(*types.Struct)
	for i := 0; i < u.NumFields(); i++ {
		ft := u.Field(i).Type()
		if isObjStruct(ft) {
			e.zeroStruct(e.subAddr(t, i, ref), ft, st)
		} else {
			c := e.fieldComp(t, i)
			e.set(st, c, store(e.get(st, c), ref, e.zeroOf(ft)))
		}
	}
}

// subAddr is the address of the embedded struct field i of the object at ref.
func (e *Enc) subAddr(st types.Type, i int, ref string) string {
	u := st.Underlying().(*types.Struct)
	name := "sub_" + e.structName(st) + "_" + sanitize(u.Field(i).Name())
	e.hdrOnce(name, fmt.Sprintf(`(declare-fun %s (Ref) Ref)
(declare-fun %s_inv (Ref) Ref)
(assert (forall ((o Ref)) (! (and (= (%s_inv (%s o)) o) (not (= (%s o) nil))) :pattern ((%s o)))))`, name, name, name, name, name, name))
	return "(" + name + " " + ref + ")"
}

// allocSubObjects marks the embedded struct fields of a freshly allocated object as fresh too.
func (e *Enc) allocSubObjects(cur *pathState, ref string, t types.Type) {
	u, ok := t.Underlying().(*types.Struct)
	if !ok {
		return
	}
	a := e.allocComp()
	for i := 0; i < u.NumFields(); i++ {
		ft := u.Field(i).Type()
		if isObjStruct(ft) {
			sub := e.subAddr(t, i, ref)
			fact, next := allocNew(e.get(cur.st, a), sub)
			e.assume(fact)
			e.set(cur.st, a, next)
			e.allocSubObjects(cur, sub, ft)
		}
	}
}

func (e *Enc) newObject(cur *pathState, base string) string {
	r := e.fresh(base)
	e.declare(r, "Ref")
	a := e.allocComp()
	fact, next := allocNew(e.get(cur.st, a), r)
	e.assume(and(not(eq(r, "nil")), fact))
	e.set(cur.st, a, next)
	return r
}

// ---------- instructions ----------

func (e *Enc) safety(fr *Frame, cur *pathState, kind string, pos token.Pos, cond string, instr ssa.Instruction) {
	if cond == "true" {
		return
	}
	if e.safeMode {
		line := e.w.srcLine(pos)
		if line == "" && instr != nil {
			line = instr.String()
		}
		e.addObl("safe", e.framePrefix(fr)+kind+":"+truncate(line, 70), cur.reach, cond, pos, kind)
	}
	e.assumeIf(cur.reach, cond)
}

func (e *Enc) execPanic(fr *Frame, x *ssa.Panic, cur pathState) {
	if e.safeMode {
		line := e.w.srcLine(x.Pos())
		e.addObl("safe", e.framePrefix(fr)+"panic:"+truncate(line, 70), cur.reach, "false", x.Pos(), "explicit panic reachable")
	}
}

func (e *Enc) execInstr(fr *Frame, ins ssa.Instruction, cur *pathState) {
	switch x := ins.(type) {
	case *ssa.DebugRef:
	case *ssa.Alloc:
		e.execAlloc(fr, x, cur)
	case *ssa.Store:
		e.execStore(fr, x, cur)
	case *ssa.UnOp:
		e.execUnOp(fr, x, cur)
	case *ssa.BinOp:
		e.execBinOp(fr, x, cur)
	case *ssa.FieldAddr:
		base := e.val(fr, x.X)
		e.safety(fr, cur, "nil", x.Pos(), not(eq(base.T, "nil")), x)
		st := x.X.Type().Underlying().(*types.Pointer).Elem()
		ft := st.Underlying().(*types.Struct).Field(x.Field).Type()
		if isObjStruct(ft) {
			e.setReg(fr, x, Val{T: e.subAddr(st, x.Field, base.T), S: "Ref"})
			e.assumeIf(cur.reach, isAlloc(e.get(cur.st, e.allocComp()), fr.regs[x].T))
			r := fr.regs[x]
			r.SubKey = "sub_" + e.structName(st) + "_" + sanitize(st.Underlying().(*types.Struct).Field(x.Field).Name())
			r.SubOwner = base.T
			fr.regs[x] = r
		} else {
			c := e.fieldComp(st, x.Field)
			e.checkProtected(fr, cur, st, x.Field, base.T, x.Pos())
			fr.regs[x] = Val{T: "nil", S: "Ref", Loc: &Loc{Kind: "field", Comp: c.Name, Base: base.T, Typ: ft}, Typ: x.Type()}
		}
	case *ssa.Field:
		base := e.val(fr, x.X)
		st := x.X.Type()
		u := st.Underlying().(*types.Struct)
		s := e.sortOf(st)
		e.setReg(fr, x, Val{T: fmt.Sprintf("(%s_%s %s)", s, sanitize(u.Field(x.Field).Name()), base.T)})
	case *ssa.IndexAddr:
		e.execIndexAddr(fr, x, cur)
	case *ssa.Index:
		base := e.val(fr, x.X)
		idx := e.val(fr, x.Index)
		switch t := x.X.Type().Underlying().(type) {
		case *types.Array:
			e.safety(fr, cur, "bounds", x.Pos(), fmt.Sprintf("(and (<= 0 %s) (< %s %d))", idx.T, idx.T, t.Len()), x)
			e.setReg(fr, x, Val{T: sel(base.T, idx.T)})
		case *types.Basic: // string
			e.safety(fr, cur, "bounds", x.Pos(), fmt.Sprintf("(and (<= 0 %s) (< %s (strlen %s)))", idx.T, idx.T, base.T), x)
			e.ufun("str_at", []string{"Str", "Int"}, "Int")
			e.setReg(fr, x, Val{T: fmt.Sprintf("(str_at %s %s)", base.T, idx.T)})
		default:
			e.setReg(fr, x, e.freshVal("idx", x.Type(), cur))
		}
	case *ssa.Lookup:
		e.execLookup(fr, x, cur)
	case *ssa.MapUpdate:
		m := e.val(fr, x.Map)
		k := e.val(fr, x.Key)
		v := e.val(fr, x.Value)
		mt := x.Map.Type().Underlying().(*types.Map)
		e.safety(fr, cur, "nilmap", x.Pos(), not(eq(m.T, "nil")), x)
		e.mapStore(cur.st, mt, m.T, k.T, v.T)
	case *ssa.MakeMap:
		mt := x.Type().Underlying().(*types.Map)
		r := e.newObject(cur, "map")
		d, _, l := e.mapComps(mt)
		e.set(cur.st, d, store(e.get(cur.st, d), r, "((as const (Array "+e.sortOf(mt.Key())+" Bool)) false)"))
		e.set(cur.st, l, store(e.get(cur.st, l), r, "0"))
		e.setReg(fr, x, Val{T: r, S: "Ref"})
	case *ssa.MakeSlice:
		sl := x.Type().Underlying().(*types.Slice)
		ln := e.val(fr, x.Len)
		cp := e.val(fr, x.Cap)
		e.safety(fr, cur, "makeslice", x.Pos(), fmt.Sprintf("(and (>= %s 0) (>= %s %s))", ln.T, cp.T, ln.T), x)
		r := e.newObject(cur, "arr")
		c := e.sliceComp(sl.Elem())
		e.set(cur.st, c, store(e.get(cur.st, c), r, "((as const (Array Int "+e.sortOf(sl.Elem())+")) "+e.zeroOf(sl.Elem())+")"))
		e.setReg(fr, x, Val{T: fmt.Sprintf("(mkslice %s 0 %s %s)", r, ln.T, cp.T), S: "Slice"})
	case *ssa.MakeChan:
		r := e.newObject(cur, "chan")
		e.setReg(fr, x, Val{T: r, S: "Ref"})
	case *ssa.MakeClosure:
		fn := x.Fn.(*ssa.Function)
		var binds []Val
		for _, b := range x.Bindings {
			binds = append(binds, e.val(fr, b))
		}
		r := e.newObject(cur, "clo")
		fr.regs[x] = Val{T: r, S: "Ref", Fn: fn, Binds: binds, Typ: x.Type()}
	case *ssa.MakeInterface:
		v := e.val(fr, x.X)
		box, _ := e.boxFns(x.X.Type())
		e.setReg(fr, x, Val{T: "(" + box + " " + v.T + ")", S: "Iface"})
	case *ssa.ChangeInterface:
		v := e.val(fr, x.X)
		e.setReg(fr, x, Val{T: v.T, S: "Iface"})
	case *ssa.ChangeType:
		v := e.val(fr, x.X)
		nv := v
		nv.Typ = x.Type()
		fr.regs[x] = nv
	case *ssa.Convert:
		e.execConvert(fr, x, cur)
	case *ssa.MultiConvert:
		e.setReg(fr, x, e.freshVal("mconv", x.Type(), cur))
	case *ssa.TypeAssert:
		e.execTypeAssert(fr, x, cur)
	case *ssa.Extract:
		t := e.val(fr, x.Tuple)
		if x.Index < len(t.Tup) {
			fr.regs[x] = t.Tup[x.Index]
		} else {
			e.setReg(fr, x, e.freshVal("ext", x.Type(), cur))
		}
	case *ssa.Slice:
		e.execSlice(fr, x, cur)
	case *ssa.SliceToArrayPointer:
		e.setReg(fr, x, e.freshVal("s2a", x.Type(), cur))
	case *ssa.Range:
		e.execRange(fr, x, cur)
	case *ssa.Next:
		e.execNext(fr, x, cur)
	case *ssa.Select:
		e.execSelect(fr, x, cur)
	case *ssa.Send:
		e.note("channel send modelled as skip (no blocking, no effect on verified heap)")
		// ghosts: sent(x.f) / lastsent(x.f) in specifications (sends through channel field f of x)
		e.chanFieldGhost(fr, cur, "true", x.Chan, e.val(fr, x.X), "chsent_", "chlastsent_")
	case *ssa.Go:
		e.note("go statement: spawned goroutine not verified as concurrent code (skip)")
		// ghost: spawn counters, calls(go:f) / lastarg(go:f, i) in specifications
		if callee := x.Call.StaticCallee(); callee != nil {
			var args []Val
			for _, a := range x.Call.Args {
				args = append(args, e.val(fr, a))
			}
			e.countCall(cur, "go:"+shortFuncName(callee), args)
		}
	case *ssa.Defer:
		c := e.armedComp(fr, x)
		e.set(cur.st, c, "true")
	case *ssa.RunDefers:
		e.execRunDefers(fr, cur)
	case *ssa.Call:
		res := e.execCall(fr, &x.Call, x, cur)
		if res.Tup == nil && res.T == "" {
			res = Val{T: "unit", S: "Unit"}
		}
		if res.Tup != nil || res.Fn != nil || res.Ext || res.It != nil {
			if res.Typ == nil {
				res.Typ = x.Type()
			}
			fr.regs[x] = res
		} else {
			e.setReg(fr, x, res)
		}
	default:
		e.errorf("%s: unsupported instruction %T: %s", fr.name, ins, ins)
	}
}

func (e *Enc) armedComp(fr *Frame, d *ssa.Defer) *Comp {
	if c, ok := fr.armed[d]; ok {
		return c
	}
	idx := 0
	for i, x := range fr.deferList {
		if x == d {
			idx = i
		}
	}
	c := e.comp(fmt.Sprintf("armed_f%d_%d", fr.id, idx), "Bool", "local", "DEFER:"+fmt.Sprint(d.Pos()))
	c.Zero = "false"
	fr.armed[d] = c
	return c
}

func (e *Enc) execAlloc(fr *Frame, x *ssa.Alloc, cur *pathState) {
	t := x.Type().Underlying().(*types.Pointer).Elem()
	switch {
	case isObjStruct(t):
		r := e.newObject(cur, "obj_"+sanitize(x.Comment))
		e.allocSubObjects(cur, r, t)
		e.zeroStruct(r, t, cur.st)
		e.setReg(fr, x, Val{T: r, S: "Ref"})
	case isArrayType(t):
		arr := t.Underlying().(*types.Array)
		r := e.newObject(cur, "arr")
		c := e.sliceComp(arr.Elem())
		e.set(cur.st, c, store(e.get(cur.st, c), r, "((as const (Array Int "+e.sortOf(arr.Elem())+")) "+e.zeroOf(arr.Elem())+")"))
		e.setReg(fr, x, Val{T: r, S: "Ref"})
	case x.Heap:
		r := e.newObject(cur, "cell_"+sanitize(x.Comment))
		c := e.cellComp(t)
		e.set(cur.st, c, store(e.get(cur.st, c), r, e.zeroOf(t)))
		fr.regs[x] = Val{T: r, S: "Ref", Loc: &Loc{Kind: "cell", Comp: c.Name, Base: r, Typ: t}, Typ: x.Type(), Alloc: x, AllocFr: fr}
	default:
		name := fmt.Sprintf("L_f%d_%s_%s", fr.id, sanitize(x.Comment), x.Name())
		c := e.comp(name, e.sortOf(t), "local", "L:"+x.Name()+"@"+x.Parent().String())
		c.Zero = e.zeroOf(t)
		fr.locals[x] = c
		// (re)initialise: an Alloc inside a loop yields a fresh zero variable each iteration
		cur.st.v[c.Name] = c.Zero
		fr.regs[x] = Val{T: "nil", S: "Ref", Loc: &Loc{Kind: "local", Comp: c.Name, Typ: t}, Typ: x.Type()}
	}
}

func isArrayType(t types.Type) bool {
	_, ok := t.Underlying().(*types.Array)
	return ok
}

func (e *Enc) execStore(fr *Frame, x *ssa.Store, cur *pathState) {
	addr := e.val(fr, x.Addr)
	v := e.val(fr, x.Val)
	t := x.Addr.Type().Underlying().(*types.Pointer).Elem()
	if addr.Loc == nil {
		e.safety(fr, cur, "nil", x.Pos(), not(eq(addr.T, "nil")), x)
	}
	if isObjStruct(t) {
		if addr.Loc != nil && addr.Loc.Kind == "elem" {
			// struct element of a slice: stored as a value
			e.storeLoc(addr.Loc, cur.st, v.T)
			return
		}
		e.storeStruct(addr.T, t, v.T, cur.st)
		return
	}
	if isArrayType(t) && addr.Loc == nil {
		c := e.sliceComp(t.Underlying().(*types.Array).Elem())
		e.set(cur.st, c, store(e.get(cur.st, c), addr.T, v.T))
		return
	}
	e.storeLoc(e.addrLoc(addr, t), cur.st, v.T)
}

func (e *Enc) execUnOp(fr *Frame, x *ssa.UnOp, cur *pathState) {
	v := e.val(fr, x.X)
	switch x.Op {
	case token.MUL: // load
		t := x.Type()
		if v.Loc == nil {
			e.safety(fr, cur, "nil", x.Pos(), not(eq(v.T, "nil")), x)
		}
		if isObjStruct(t) {
			if v.Loc != nil && v.Loc.Kind == "elem" {
				e.setReg(fr, x, Val{T: e.loadLoc(v.Loc, cur.st)})
				return
			}
			e.setReg(fr, x, Val{T: e.loadStruct(v.T, t, cur.st)})
			return
		}
		if isArrayType(t) && v.Loc == nil {
			c := e.sliceComp(t.Underlying().(*types.Array).Elem())
			e.setReg(fr, x, Val{T: sel(e.get(cur.st, c), v.T)})
			return
		}
		loc := e.addrLoc(v, t)
		res := Val{T: e.loadLoc(loc, cur.st), S: e.sortOf(t), Typ: t}
		// provenance of a captured function variable: the single closure stored in it by the
		// frame that declared it
		if fvv, ok := x.X.(*ssa.FreeVar); ok {
			for i, p := range fr.fn.FreeVars {
				if p != fvv || i >= len(fr.binds) {
					continue
				}
				b := fr.binds[i]
				if b.Alloc != nil && b.AllocFr != nil {
					if sv, ok := b.AllocFr.localProv[b.Alloc]; ok {
						if pv, ok := b.AllocFr.regs[sv]; ok && pv.Fn != nil {
							res.Fn, res.Binds, res.Ext = pv.Fn, pv.Binds, pv.Ext
						}
					}
				}
			}
		}
		// provenance through single-store locals
		if a, ok := x.X.(*ssa.Alloc); ok {
			if sv, ok := fr.localProv[a]; ok {
				if pv, ok := fr.regs[sv]; ok {
					res.Fn, res.Binds, res.Ext = pv.Fn, pv.Binds, pv.Ext
				} else if f, ok := sv.(*ssa.Function); ok {
					res.Fn = f
				} else if prm, ok := sv.(*ssa.Parameter); ok {
					// local copy of a parameter: keep what is known about the argument
					pv := e.val(fr, prm)
					res.Fn, res.Binds, res.Ext = pv.Fn, pv.Binds, pv.Ext
				}
			}
		}
		if loc.Kind != "local" {
			e.setReg(fr, x, res)
			e.typeFacts(fr.regs[x], t, cur)
		} else {
			e.setReg(fr, x, res)
		}
	case token.NOT:
		e.setReg(fr, x, Val{T: not(v.T), S: "Bool"})
	case token.SUB:
		e.setReg(fr, x, Val{T: "(- " + v.T + ")", S: v.S})
	case token.XOR:
		e.ufun("bitnot", []string{"Int"}, "Int")
		e.setReg(fr, x, Val{T: "(bitnot " + v.T + ")", S: "Int"})
	case token.ARROW:
		// channel receive
		var et types.Type
		if ch, ok := x.X.Type().Underlying().(*types.Chan); ok {
			et = ch.Elem()
		}
		e.note("channel receive modelled as an arbitrary value (no blocking)")
		defer func() {
			// ghost: count received values (countrecv(v), recvs() in specifications)
			r := fr.regs[x]
			if r.Tup != nil {
				r = r.Tup[0]
			}
			tc := e.comp("recvtotal", "Int", "ghost", "G:recv")
			e.set(cur.st, tc, "(+ "+e.get(cur.st, tc)+" 1)")
			e.chanRecvGhost(fr, cur, "true", x.X, r)
			if r.S == "Int" {
				cc := e.comp("recvcount", "(Array Int Int)", "ghost", "G:recv")
				e.set(cur.st, cc, store(e.get(cur.st, cc), r.T, "(+ "+sel(e.get(cur.st, cc), r.T)+" 1)"))
			}
		}()
		if x.CommaOk {
			rv := e.freshVal("recv", et, cur)
			ok := e.fresh("recvok")
			e.declare(ok, "Bool")
			fr.regs[x] = Val{Tup: []Val{rv, {T: ok, S: "Bool"}}, Typ: x.Type()}
		} else {
			e.setReg(fr, x, e.freshVal("recv", et, cur))
		}
	default:
		e.errorf("%s: unsupported unop %s", fr.name, x.Op)
	}
}

func (e *Enc) toReal(v Val) string {
	if v.S == "Real" {
		return v.T
	}
	return "(to_real " + v.T + ")"
}

func (e *Enc) execBinOp(fr *Frame, x *ssa.BinOp, cur *pathState) {
	a := e.val(fr, x.X)
	b := e.val(fr, x.Y)
	s := e.sortOf(x.X.Type())
	var t string
	rs := e.sortOf(x.Type())
	switch x.Op {
	case token.ADD:
		if s == "Str" {
			t = "(str_cat " + a.T + " " + b.T + ")"
		} else {
			t = "(+ " + a.T + " " + b.T + ")"
		}
	case token.SUB:
		t = "(- " + a.T + " " + b.T + ")"
	case token.MUL:
		if s == "Real" {
			t = e.realMul(a.T, b.T)
		} else {
			t = "(* " + a.T + " " + b.T + ")"
		}
	case token.QUO:
		if s == "Real" {
			t = "(/ " + a.T + " " + b.T + ")"
		} else {
			e.safety(fr, cur, "div", x.Pos(), not(eq(b.T, "0")), x)
			t = "(gdiv " + a.T + " " + b.T + ")"
		}
	case token.REM:
		e.safety(fr, cur, "div", x.Pos(), not(eq(b.T, "0")), x)
		t = "(gmod " + a.T + " " + b.T + ")"
	case token.AND:
		t = bitAnd(e, a.T, b.T)
	case token.OR, token.XOR, token.AND_NOT:
		n := map[token.Token]string{token.AND: "bitand", token.OR: "bitor", token.XOR: "bitxor", token.AND_NOT: "bitandnot"}[x.Op]
		e.ufun(n, []string{"Int", "Int"}, "Int")
		t = "(" + n + " " + a.T + " " + b.T + ")"
	case token.SHL:
		if c, ok := x.Y.(*ssa.Const); ok && c.Value != nil {
			if n, ok2 := constInt(c); ok2 && n < 62 {
				t = fmt.Sprintf("(* %s %d)", a.T, int64(1)<<uint(n))
				break
			}
		}
		e.ufun("shl", []string{"Int", "Int"}, "Int")
		t = "(shl " + a.T + " " + b.T + ")"
	case token.SHR:
		if c, ok := x.Y.(*ssa.Const); ok && c.Value != nil {
			if n, ok2 := constInt(c); ok2 && n < 62 {
				t = fmt.Sprintf("(div %s %d)", a.T, int64(1)<<uint(n))
				break
			}
		}
		e.ufun("shr", []string{"Int", "Int"}, "Int")
		t = "(shr " + a.T + " " + b.T + ")"
	case token.EQL, token.NEQ:
		t = e.eqVals(a, b, x.X.Type(), x.Y.Type())
		if x.Op == token.NEQ {
			t = not(t)
		}
	case token.LSS, token.LEQ, token.GTR, token.GEQ:
		if s == "Str" {
			switch x.Op {
			case token.LSS:
				t = "(str_lt " + a.T + " " + b.T + ")"
			case token.GTR:
				t = "(str_lt " + b.T + " " + a.T + ")"
			case token.LEQ:
				t = "(not (str_lt " + b.T + " " + a.T + "))"
			case token.GEQ:
				t = "(not (str_lt " + a.T + " " + b.T + "))"
			}
		} else {
			op := map[token.Token]string{token.LSS: "<", token.LEQ: "<=", token.GTR: ">", token.GEQ: ">="}[x.Op]
			t = "(" + op + " " + a.T + " " + b.T + ")"
		}
	default:
		e.errorf("%s: unsupported binop %s", fr.name, x.Op)
		t = e.zeroOf(x.Type())
	}
	e.setReg(fr, x, Val{T: t, S: rs})
}

func constInt(c *ssa.Const) (int64, bool) {
	if c.Value == nil {
		return 0, false
	}
	v := c.Int64()
	return v, true
}

func (e *Enc) eqVals(a, b Val, ta, tb types.Type) string {
	sa := e.sortOf(ta)
	if sa == "Slice" {
		// only comparison with nil is legal
		if isNilConst(b) {
			return eq("(s_arr "+a.T+")", "nil")
		}
		return eq("(s_arr "+b.T+")", "nil")
	}
	return eq(a.T, b.T)
}

func isNilConst(v Val) bool { return v.T == "(mkslice nil 0 0 0)" }

func (e *Enc) execIndexAddr(fr *Frame, x *ssa.IndexAddr, cur *pathState) {
	base := e.val(fr, x.X)
	idx := e.val(fr, x.Index)
	switch t := x.X.Type().Underlying().(type) {
	case *types.Slice:
		e.safety(fr, cur, "bounds", x.Pos(), fmt.Sprintf("(and (<= 0 %s) (< %s (s_len %s)))", idx.T, idx.T, base.T), x)
		c := e.sliceComp(t.Elem())
		i := "(sidx (s_off " + base.T + ") " + idx.T + ")"
		fr.regs[x] = Val{T: "nil", S: "Ref", Loc: &Loc{Kind: "elem", Comp: c.Name, Base: "(s_arr " + base.T + ")", Idx: i, Typ: t.Elem()}, Typ: x.Type()}
	case *types.Pointer:
		arr := t.Elem().Underlying().(*types.Array)
		e.safety(fr, cur, "nil", x.Pos(), not(eq(base.T, "nil")), x)
		e.safety(fr, cur, "bounds", x.Pos(), fmt.Sprintf("(and (<= 0 %s) (< %s %d))", idx.T, idx.T, arr.Len()), x)
		c := e.sliceComp(arr.Elem())
		fr.regs[x] = Val{T: "nil", S: "Ref", Loc: &Loc{Kind: "elem", Comp: c.Name, Base: base.T, Idx: idx.T, Typ: arr.Elem()}, Typ: x.Type()}
	default:
		e.errorf("%s: unsupported IndexAddr base %s", fr.name, x.X.Type())
	}
}

func (e *Enc) mapLookup(st *St, mt *types.Map, m, k string) (val, ok string) {
	d, v, _ := e.mapComps(mt)
	ok = sel(sel(e.get(st, d), m), k)
	val = ite(ok, sel(sel(e.get(st, v), m), k), e.zeroOf(mt.Elem()))
	return
}

func (e *Enc) mapStore(st *St, mt *types.Map, m, k, v string) {
	d, vc, l := e.mapComps(mt)
	dv := e.get(st, d)
	present := sel(sel(dv, m), k)
	lv := e.get(st, l)
	e.set(st, l, store(lv, m, "(+ "+sel(lv, m)+" "+ite(present, "0", "1")+")"))
	e.set(st, d, store(dv, m, store(sel(dv, m), k, "true")))
	vv := e.get(st, vc)
	e.set(st, vc, store(vv, m, store(sel(vv, m), k, v)))
}

func (e *Enc) mapDelete(st *St, mt *types.Map, m, k string) {
	d, _, l := e.mapComps(mt)
	dv := e.get(st, d)
	present := sel(sel(dv, m), k)
	lv := e.get(st, l)
	// a map of length one holding k holds nothing else (lets "the last entry was removed, so the
	// map is empty" be concluded about the state BEFORE the deletion, where specifications look)
	if !strings.Contains(m, "?") && !strings.Contains(k, "?") {
		ks := e.sortOf(mt.Key())
		mn, kn := e.fresh("delmap"), e.fresh("delkey")
		e.declare(mn, "Ref")
		e.declare(kn, ks)
		e.assume(and(eq(mn, m), eq(kn, k)))
		e.assume(fmt.Sprintf("(forall ((q %s)) (! (=> (and (= (select %s %s) 1) (select (select %s %s) %s) (select (select %s %s) q)) (= q %s)) :pattern ((select (select %s %s) q))))",
			ks, lv, mn, dv, mn, kn, dv, mn, kn, dv, mn))
	}
	// delete on nil map is a no-op: MD[nil] is empty so present is false
	e.set(st, l, store(lv, m, "(- "+sel(lv, m)+" "+ite(present, "1", "0")+")"))
	e.set(st, d, ite(eq(m, "nil"), dv, store(dv, m, store(sel(dv, m), k, "false"))))
}

func (e *Enc) execLookup(fr *Frame, x *ssa.Lookup, cur *pathState) {
	base := e.val(fr, x.X)
	k := e.val(fr, x.Index)
	mt, isMap := x.X.Type().Underlying().(*types.Map)
	if !isMap {
		// string index
		e.safety(fr, cur, "bounds", x.Pos(), fmt.Sprintf("(and (<= 0 %s) (< %s (strlen %s)))", k.T, k.T, base.T), x)
		e.ufun("str_at", []string{"Str", "Int"}, "Int")
		e.setReg(fr, x, Val{T: fmt.Sprintf("(str_at %s %s)", base.T, k.T), S: "Int"})
		return
	}
	val, ok := e.mapLookup(cur.st, mt, base.T, k.T)
	vs := e.sortOf(mt.Elem())
	if x.CommaOk {
		vn := e.defineFresh(fmt.Sprintf("%s_f%d_v", x.Name(), fr.id), vs, val)
		on := e.defineFresh(fmt.Sprintf("%s_f%d_ok", x.Name(), fr.id), "Bool", ok)
		vv := Val{T: vn, S: vs, Typ: mt.Elem()}
		e.typeFacts(vv, mt.Elem(), cur)
		fr.regs[x] = Val{Tup: []Val{vv, {T: on, S: "Bool"}}, Typ: x.Type()}
		return
	}
	e.setReg(fr, x, Val{T: val, S: vs})
	e.typeFacts(fr.regs[x], mt.Elem(), cur)
}

func (e *Enc) execConvert(fr *Frame, x *ssa.Convert, cur *pathState) {
	v := e.val(fr, x.X)
	from, to := e.sortOf(x.X.Type()), e.sortOf(x.Type())
	switch {
	case from == to:
		if from == "Int" {
			// integer narrowing/sign changes are treated as identity (no overflow modelled)
			fb, _ := x.X.Type().Underlying().(*types.Basic)
			tb, _ := x.Type().Underlying().(*types.Basic)
			if fb != nil && tb != nil && fb.Kind() != tb.Kind() {
				e.note("integer conversions are identity on mathematical integers (no wrap-around)")
			}
		}
		nv := Val{T: v.T, S: to, Typ: x.Type()}
		fr.regs[x] = nv
	case from == "Int" && to == "Real":
		e.setReg(fr, x, Val{T: "(to_real " + v.T + ")", S: "Real"})
	case from == "Real" && to == "Int":
		// Go truncates toward zero
		e.setReg(fr, x, Val{T: fmt.Sprintf("(ite (>= %s 0.0) (to_int %s) (- (to_int (- %s))))", v.T, v.T, v.T), S: "Int"})
	case from == "Slice" && to == "Str":
		el := x.X.Type().Underlying().(*types.Slice).Elem()
		c := e.sliceComp(el)
		e.ufun("str_of_bytes", []string{"(Array Int Int)", "Int", "Int"}, "Str")
		t := fmt.Sprintf("(str_of_bytes (select %s (s_arr %s)) (s_off %s) (s_len %s))", e.get(cur.st, c), v.T, v.T, v.T)
		n := e.defineFresh(fmt.Sprintf("%s_f%d", x.Name(), fr.id), "Str", t)
		e.assume(fmt.Sprintf("(= (strlen %s) (s_len %s))", n, v.T))
		fr.regs[x] = Val{T: n, S: "Str", Typ: x.Type()}
	case from == "Str" && to == "Slice":
		el := x.Type().Underlying().(*types.Slice).Elem()
		c := e.sliceComp(el)
		r := e.newObject(cur, "arr")
		e.ufun("bytes_of_str", []string{"Str"}, "(Array Int Int)")
		e.ufun("str_of_bytes", []string{"(Array Int Int)", "Int", "Int"}, "Str")
		e.hdrOnce("bytes_str_roundtrip", "(assert (forall ((s Str)) (! (= (str_of_bytes (bytes_of_str s) 0 (strlen s)) s) :pattern ((bytes_of_str s)))))")
		e.set(cur.st, c, store(e.get(cur.st, c), r, "(bytes_of_str "+v.T+")"))
		e.setReg(fr, x, Val{T: fmt.Sprintf("(mkslice %s 0 (strlen %s) (strlen %s))", r, v.T, v.T), S: "Slice"})
	case from == "Int" && to == "Str":
		e.ufun("str_of_rune", []string{"Int"}, "Str")
		e.setReg(fr, x, Val{T: "(str_of_rune " + v.T + ")", S: "Str"})
	default:
		e.setReg(fr, x, e.freshVal("conv", x.Type(), cur))
	}
}

func (e *Enc) execTypeAssert(fr *Frame, x *ssa.TypeAssert, cur *pathState) {
	v := e.val(fr, x.X)
	at := x.AssertedType
	var ok, val string
	if _, isIface := at.Underlying().(*types.Interface); isIface {
		o := e.fresh("taok")
		e.declare(o, "Bool")
		e.assume(implies(o, not(eq(v.T, "nilI"))))
		// if the static type already implements the asserted interface, success iff non-nil
		if types.Implements(x.X.Type(), at.Underlying().(*types.Interface)) {
			e.assume(eq(o, not(eq(v.T, "nilI"))))
		}
		ok = o
		val = ite(ok, v.T, "nilI")
	} else {
		_, unbox := e.boxFns(at)
		ok = fmt.Sprintf("(= (typeof %s) %d)", v.T, e.typeID(at))
		val = "(" + unbox + " " + v.T + ")"
		if _, isPtr := at.Underlying().(*types.Pointer); isPtr && v.Ext {
			// a value produced by a module dependency: no typed-nil pointers inside interfaces
			e.assume(implies(ok, not(eq(val, "nil"))))
			e.note("type assertion on a value returned by a dependency: a successful assertion to a pointer type yields a non-nil pointer (dependencies are assumed not to wrap nil pointers in interfaces)")
		}
		if x.CommaOk {
			val = ite(ok, val, e.zeroOf(at))
		}
	}
	if x.CommaOk {
		vs := e.sortOf(at)
		vn := e.defineFresh(fmt.Sprintf("%s_f%d_v", x.Name(), fr.id), vs, val)
		on := e.defineFresh(fmt.Sprintf("%s_f%d_ok", x.Name(), fr.id), "Bool", ok)
		fr.regs[x] = Val{Tup: []Val{{T: vn, S: vs, Typ: at}, {T: on, S: "Bool"}}, Typ: x.Type()}
		return
	}
	e.safety(fr, cur, "typeassert", x.Pos(), ok, x)
	e.setReg(fr, x, Val{T: val, S: e.sortOf(at)})
}

func (e *Enc) execSlice(fr *Frame, x *ssa.Slice, cur *pathState) {
	base := e.val(fr, x.X)
	var lo, hi, mx string
	if x.Low != nil {
		lo = e.val(fr, x.Low).T
	} else {
		lo = "0"
	}
	switch t := x.X.Type().Underlying().(type) {
	case *types.Slice:
		if x.High != nil {
			hi = e.val(fr, x.High).T
		} else {
			hi = "(s_len " + base.T + ")"
		}
		capT := "(s_cap " + base.T + ")"
		if x.Max != nil {
			mx = e.val(fr, x.Max).T
			e.safety(fr, cur, "slice", x.Pos(), fmt.Sprintf("(and (<= 0 %s) (<= %s %s) (<= %s %s) (<= %s %s))", lo, lo, hi, hi, mx, mx, capT), x)
		} else {
			mx = capT
			e.safety(fr, cur, "slice", x.Pos(), fmt.Sprintf("(and (<= 0 %s) (<= %s %s) (<= %s %s))", lo, lo, hi, hi, capT), x)
		}
		// the new offset gets a name and a bridging axiom sidx(newoff, i) = sidx(oldoff, lo+i), so
		// that facts quantified over the indices of the original slice are found by E-matching
		// when elements of the sub-slice are read
		noff := e.fresh("suboff")
		e.declare(noff, "Int")
		ooff := e.fresh("baseoff")
		e.declare(ooff, "Int")
		lon := e.fresh("sublo")
		e.declare(lon, "Int")
		e.assume(fmt.Sprintf("(and (= %s (s_off %s)) (= %s %s) (= %s (+ %s %s)))", ooff, base.T, lon, lo, noff, ooff, lon))
		if lo != "0" {
			e.assume(fmt.Sprintf("(forall ((i Int)) (! (= (sidx %s i) (sidx %s (+ %s i))) :pattern ((sidx %s i))))", noff, ooff, lon, noff))
		}
		res := fmt.Sprintf("(mkslice (s_arr %s) %s (- %s %s) (- %s %s))", base.T, noff, hi, lo, mx, lo)
		e.setReg(fr, x, Val{T: res, S: "Slice"})
		_ = t
	case *types.Pointer: // pointer to array
		arr := t.Elem().Underlying().(*types.Array)
		n := fmt.Sprint(arr.Len())
		if x.High != nil {
			hi = e.val(fr, x.High).T
		} else {
			hi = n
		}
		e.safety(fr, cur, "slice", x.Pos(), fmt.Sprintf("(and (<= 0 %s) (<= %s %s) (<= %s %s))", lo, lo, hi, hi, n), x)
		res := fmt.Sprintf("(mkslice %s %s (- %s %s) (- %s %s))", base.T, lo, hi, lo, n, lo)
		v := Val{T: res, S: "Slice"}
		if x.Low == nil && x.High == nil {
			v.KLen, v.KLenKnown = int(arr.Len()), true
		}
		e.setReg(fr, x, v)
		r := fr.regs[x]
		r.KLen, r.KLenKnown = v.KLen, v.KLenKnown
		fr.regs[x] = r
	case *types.Basic: // string
		if x.High != nil {
			hi = e.val(fr, x.High).T
		} else {
			hi = "(strlen " + base.T + ")"
		}
		e.safety(fr, cur, "slice", x.Pos(), fmt.Sprintf("(and (<= 0 %s) (<= %s %s) (<= %s (strlen %s)))", lo, lo, hi, hi, base.T), x)
		e.ufun("str_sub", []string{"Str", "Int", "Int"}, "Str")
		n := e.defineFresh(fmt.Sprintf("%s_f%d", x.Name(), fr.id), "Str", fmt.Sprintf("(str_sub %s %s %s)", base.T, lo, hi))
		e.assume(fmt.Sprintf("(= (strlen %s) (- %s %s))", n, hi, lo))
		fr.regs[x] = Val{T: n, S: "Str", Typ: x.Type()}
	default:
		e.errorf("%s: unsupported Slice base %s", fr.name, x.X.Type())
	}
}

// ---------- range / next ----------

func (e *Enc) execRange(fr *Frame, x *ssa.Range, cur *pathState) {
	base := e.val(fr, x.X)
	mt, isMap := x.X.Type().Underlying().(*types.Map)
	if !isMap {
		fr.regs[x] = Val{It: &iterRec{isString: true, mapRef: base.T}, Typ: x.Type()}
		return
	}
	d, _, _ := e.mapComps(mt)
	ks := e.sortOf(mt.Key())
	if !isAtom(base.T) || true {
		// name the ranged map by a constant (not a macro): it appears in quantifier patterns,
		// which must not contain if-then-else
		mc := e.fresh(fmt.Sprintf("rmap_f%d", fr.id))
		e.declare(mc, "Ref")
		e.assume(eq(mc, base.T))
		base.T = mc
	}
	vis := e.comp(fmt.Sprintf("visited_f%d_%s", fr.id, x.Name()), "(Array "+ks+" Bool)", "local", "IT:"+x.Name())
	vis.Zero = "((as const (Array " + ks + " Bool)) false)"
	cur.st.v[vis.Name] = vis.Zero
	start := e.defineFresh(fmt.Sprintf("rstart_f%d_%s", fr.id, x.Name()), "(Array "+ks+" Bool)", sel(e.get(cur.st, d), base.T))
	cnt := e.comp(fmt.Sprintf("rcount_f%d_%s", fr.id, x.Name()), "Int", "local", "IT:"+x.Name())
	cnt.Zero = "0"
	cur.st.v[cnt.Name] = "0"
	fr.regs[x] = Val{It: &iterRec{mapRef: base.T, mapTyp: mt, visited: vis.Name, startDom: start, count: cnt.Name}, Typ: x.Type()}
}

func (e *Enc) execNext(fr *Frame, x *ssa.Next, cur *pathState) {
	it := e.val(fr, x.Iter).It
	if it == nil || it.isString {
		ok := e.fresh("nextok")
		e.declare(ok, "Bool")
		tup := x.Type().(*types.Tuple)
		k := e.freshVal("nextk", tup.At(1).Type(), cur)
		v := e.freshVal("nextv", tup.At(2).Type(), cur)
		fr.regs[x] = Val{Tup: []Val{{T: ok, S: "Bool"}, k, v}, Typ: x.Type()}
		e.note("range over string: iteration values arbitrary")
		return
	}
	mt := it.mapTyp
	d, vc, _ := e.mapComps(mt)
	ks := e.sortOf(mt.Key())
	vs := e.sortOf(mt.Elem())
	vis := e.comps[it.visited]
	ok := e.fresh(fmt.Sprintf("nextok_f%d", fr.id))
	e.declare(ok, "Bool")
	k := e.fresh(fmt.Sprintf("nextk_f%d", fr.id))
	e.declare(k, ks)
	dom := sel(e.get(cur.st, d), it.mapRef)
	visT := e.get(cur.st, vis)
	e.assumeIf(cur.reach, implies(ok, and(sel(dom, k), not(sel(visT, k)))))
	e.assumeIf(cur.reach, implies(not(ok), fmt.Sprintf("(forall ((k %s)) (! (=> (and (select %s k) (select %s k)) (select %s k)) :pattern ((select %s k))))", ks, dom, it.startDom, visT, dom)))
	e.note("map range: keys inserted during iteration are not assumed to be produced; a key deleted and re-inserted during the iteration is assumed produced")
	v := e.defineFresh(fmt.Sprintf("nextv_f%d", fr.id), vs, sel(sel(e.get(cur.st, vc), it.mapRef), k))
	e.set(cur.st, vis, ite(ok, store(visT, k, "true"), visT))
	if it.count != "" {
		cc := e.comps[it.count]
		_, _, lcomp := e.mapComps(mt)
		// a range over a map that was not mutated meanwhile produces exactly len(map) keys
		e.assumeIf(cur.reach, implies(and(not(ok), eq(dom, it.startDom)), eq(e.get(cur.st, cc), sel(e.get(cur.st, lcomp), it.mapRef))))
		e.assumeIf(cur.reach, fmt.Sprintf("(>= %s 0)", e.get(cur.st, cc)))
		// the keys produced so far are distinct members of the (unmutated) map
		e.assumeIf(cur.reach, implies(and(ok, eq(dom, it.startDom)), fmt.Sprintf("(<= (+ %s 1) %s)", e.get(cur.st, cc), sel(e.get(cur.st, lcomp), it.mapRef))))
		e.set(cur.st, cc, ite(ok, "(+ "+e.get(cur.st, cc)+" 1)", e.get(cur.st, cc)))
	}
	kv := Val{T: k, S: ks, Typ: mt.Key()}
	vv := Val{T: v, S: vs, Typ: mt.Elem()}
	e.typeFacts(vv, mt.Elem(), cur)
	fr.regs[x] = Val{Tup: []Val{{T: ok, S: "Bool"}, kv, vv}, Typ: x.Type()}
}

func (e *Enc) execSelect(fr *Frame, x *ssa.Select, cur *pathState) {
	idx := e.fresh("selidx")
	e.declare(idx, "Int")
	lo := "0"
	if !x.Blocking {
		lo = "(- 1)"
	}
	e.assume(fmt.Sprintf("(and (>= %s %s) (< %s %d))", idx, lo, idx, len(x.States)))
	ok := e.fresh("selok")
	e.declare(ok, "Bool")
	tup := []Val{{T: idx, S: "Int"}, {T: ok, S: "Bool"}}
	for _, s := range x.States {
		if s.Dir == types.RecvOnly {
			var et types.Type = types.Typ[types.Int]
			if ch, ok := s.Chan.Type().Underlying().(*types.Chan); ok {
				et = ch.Elem()
			}
			tup = append(tup, e.freshVal("selrecv", et, cur))
		}
	}
	// context.Done(): if the channel is ctx.Done() the branch is enabled only when done
	for i, s := range x.States {
		if cv, ok := fr.regs[s.Chan]; ok && cv.CtxOf != "" {
			ctx := cv.CtxOf
			done := e.ctxDone(ctx, cur)
			e.assume(implies(eq(idx, fmt.Sprint(i)), done))
			if !x.Blocking && len(x.States) == 1 {
				e.assume(implies(done, eq(idx, "0")))
			}
		}
	}
	// ghosts: received(ch) / lastrecv(ch) in specifications
	ri := 2
	for i, s := range x.States {
		if s.Dir == types.SendOnly {
			// a send case that is taken counts as a send through that channel field
			e.chanFieldGhost(fr, cur, eq(idx, fmt.Sprint(i)), s.Chan, e.val(fr, s.Send), "chsent_", "chlastsent_")
			continue
		}
		if s.Dir != types.RecvOnly {
			continue
		}
		e.chanRecvGhost(fr, cur, eq(idx, fmt.Sprint(i)), s.Chan, tup[ri])
		// a receive that reports !ok (closed channel) yields the zero value; lastrecvok(x.f)
		if tup[ri].Tup == nil && tup[ri].S != "" && tup[ri].S != "Unit" {
			if ch, isCh := s.Chan.Type().Underlying().(*types.Chan); isCh {
				e.assume(implies(and(eq(idx, fmt.Sprint(i)), not(ok)), eq(tup[ri].T, e.zeroOf(ch.Elem()))))
			}
		}
		e.chanOkGhost(fr, cur, eq(idx, fmt.Sprint(i)), s.Chan, ok)
		ri++
	}
	e.note("select: the chosen ready case is arbitrary (no blocking or fairness modelled)")
	fr.regs[x] = Val{Tup: tup, Typ: x.Type()}
}

// chanRecvGhost: under cond, one more value has been received through the channel expression ch,
// the last being v. Receives are attributed to the struct field the channel was loaded from
// (received(x.f) / lastrecv(x.f) in specifications), so no assumption about distinct channel
// values is needed; channels not loaded from a field are not tracked.
func (e *Enc) chanRecvGhost(fr *Frame, cur *pathState, cond string, ch ssa.Value, v Val) {
	e.chanFieldGhost(fr, cur, cond, ch, v, "chrecv_", "chlast_")
}

func (e *Enc) chanFieldGhost(fr *Frame, cur *pathState, cond string, ch ssa.Value, v Val, cntPfx, lastPfx string) {
	ld, ok := ch.(*ssa.UnOp)
	if !ok || ld.Op != token.MUL {
		return
	}
	fa, ok := ld.X.(*ssa.FieldAddr)
	if !ok {
		return
	}
	stT, ok := derefStruct(fa.X.Type())
	if !ok {
		return
	}
	owner := e.val(fr, fa.X)
	if owner.S != "Ref" {
		return
	}
	fname := stT.Underlying().(*types.Struct).Field(fa.Field).Name()
	key := e.structName(stT) + "_" + sanitize(fname)
	cc := e.comp(cntPfx+key, "(Array Ref Int)", "ghost", "G:chan")
	old := e.get(cur.st, cc)
	e.set(cur.st, cc, ite(cond, store(old, owner.T, "(+ "+sel(old, owner.T)+" 1)"), old))
	if v.S == "" || v.Tup != nil || v.S == "Unit" {
		return
	}
	lc := e.comp(lastPfx+key, "(Array Ref "+v.S+")", "ghost", "G:chan")
	lo := e.get(cur.st, lc)
	e.set(cur.st, lc, ite(cond, store(lo, owner.T, v.T), lo))
}

// chanOkGhost: lastrecvok(x.f) - whether the last receive through channel field f of x delivered a
// value (false: the channel was closed and drained).
func (e *Enc) chanOkGhost(fr *Frame, cur *pathState, cond string, ch ssa.Value, ok string) {
	ld, isLd := ch.(*ssa.UnOp)
	if !isLd || ld.Op != token.MUL {
		return
	}
	fa, isFa := ld.X.(*ssa.FieldAddr)
	if !isFa {
		return
	}
	stT, isSt := derefStruct(fa.X.Type())
	if !isSt {
		return
	}
	owner := e.val(fr, fa.X)
	if owner.S != "Ref" {
		return
	}
	fname := stT.Underlying().(*types.Struct).Field(fa.Field).Name()
	key := e.structName(stT) + "_" + sanitize(fname)
	oc := e.comp("chlastok_"+key, "(Array Ref Bool)", "ghost", "G:chan")
	o := e.get(cur.st, oc)
	e.set(cur.st, oc, ite(cond, store(o, owner.T, ok), o))
}

// ctxDone: ghost monotone boolean "context ctx is cancelled" as of the current state.
func (e *Enc) ctxDone(ctx string, cur *pathState) string {
	c := e.comp("ctxdone", "(Array Iface Bool)", "ghost", "G:ctxdone")
	return sel(e.get(cur.st, c), ctx)
}

// ---------- defers ----------

func (e *Enc) execRunDefers(fr *Frame, cur *pathState) {
	for i := len(fr.deferList) - 1; i >= 0; i-- {
		d := fr.deferList[i]
		c := fr.armed[d]
		if c == nil {
			continue // defer never executed on any path so far
		}
		armed := e.get(cur.st, c)
		if armed == "false" {
			continue
		}
		// conditional execution
		yes := pathState{e.defineFresh(fmt.Sprintf("R_f%d_defer%d", fr.id, i), "Bool", and(cur.reach, armed)), cur.st.clone()}
		noReach := e.defineFresh(fmt.Sprintf("R_f%d_nodefer%d", fr.id, i), "Bool", and(cur.reach, not(armed)))
		e.execCall(fr, &d.Call, d, &yes)
		e.set(yes.st, c, "false")
		if armed == "true" {
			*cur = yes
			continue
		}
		m := e.mergeStates([]edgeIn{{nil, yes.reach, yes.st}, {nil, noReach, cur.st}}, fmt.Sprintf("f%d_afterdefer%d", fr.id, i))
		*cur = pathState{m.reach, m.st.clone()}
	}
}

// bitAnd encodes x & c arithmetically when one operand is a literal single-bit or low mask
// (non-negative operands), otherwise as an uninterpreted function.
func bitAnd(e *Enc, a, b string) string {
	lit := func(s string) (int64, bool) {
		var v int64
		if _, err := fmt.Sscanf(s, "%d", &v); err == nil && fmt.Sprint(v) == s && v >= 0 {
			return v, true
		}
		return 0, false
	}
	x, c, ok := "", int64(0), false
	if v, isLit := lit(b); isLit {
		x, c, ok = a, v, true
	} else if v, isLit := lit(a); isLit {
		x, c, ok = b, v, true
	}
	if ok {
		if c == 0 {
			return "0"
		}
		if c&(c-1) == 0 { // single bit
			return fmt.Sprintf("(* (mod (div %s %d) 2) %d)", x, c, c)
		}
		if (c+1)&c == 0 { // low mask 2^k-1
			return fmt.Sprintf("(mod %s %d)", x, c+1)
		}
	}
	e.ufun("bitand", []string{"Int", "Int"}, "Int")
	return "(bitand " + a + " " + b + ")"
}

// privateCell: a heap-allocated local (captured by closures) whose address never leaves this
// function except into closures that are only called/spawned here. A callee cannot write it.
func privateCell(a *ssa.Alloc) bool {
	refs := a.Referrers()
	if refs == nil {
		return false
	}
	for _, r := range *refs {
		switch x := r.(type) {
		case *ssa.Store:
			if x.Val == ssa.Value(a) {
				return false // the address itself is stored somewhere
			}
		case *ssa.UnOp, *ssa.DebugRef:
		case *ssa.MakeClosure:
			crefs := x.Referrers()
			if crefs == nil {
				return false
			}
			for _, cr := range *crefs {
				switch y := cr.(type) {
				case *ssa.Go:
					if y.Call.Value != ssa.Value(x) {
						return false
					}
				case *ssa.Call:
					if y.Call.Value != ssa.Value(x) {
						return false
					}
				case *ssa.Defer:
					if y.Call.Value != ssa.Value(x) {
						return false
					}
				case *ssa.Store:
					// closure stored in a local that is only called: accept if that local is non-escaping
					la, ok := y.Addr.(*ssa.Alloc)
					if !ok || la.Heap {
						return false
					}
					if !localOnlyCalled(la) {
						return false
					}
				case *ssa.DebugRef:
				default:
					return false
				}
			}
		default:
			return false
		}
	}
	return true
}

// localOnlyCalled: every load of the local function variable is used only as a call target.
func localOnlyCalled(a *ssa.Alloc) bool {
	refs := a.Referrers()
	if refs == nil {
		return false
	}
	for _, r := range *refs {
		switch x := r.(type) {
		case *ssa.Store, *ssa.DebugRef:
		case *ssa.UnOp:
			lrefs := x.Referrers()
			if lrefs == nil {
				continue
			}
			for _, lr := range *lrefs {
				switch y := lr.(type) {
				case *ssa.Call:
					if y.Call.Value != ssa.Value(x) {
						return false
					}
				case *ssa.Defer:
					if y.Call.Value != ssa.Value(x) {
						return false
					}
				case *ssa.Go:
					if y.Call.Value != ssa.Value(x) {
						return false
					}
				case *ssa.DebugRef:
				default:
					return false
				}
			}
		default:
			return false
		}
	}
	return true
}

func (e *Enc) restorePrivateCells(fr *Frame, st *St, oldSyms map[string]string) {
	for f := fr; f != nil; f = f.caller {
		var allocs []*ssa.Alloc
		for v := range f.regs {
			if a, ok := v.(*ssa.Alloc); ok && a.Heap {
				allocs = append(allocs, a)
			}
		}
		sort.Slice(allocs, func(i, j int) bool { return allocs[i].Name() < allocs[j].Name() })
		for _, a := range allocs {
			r := f.regs[a]
			if r.Loc == nil || r.Loc.Kind != "cell" || oldSyms[r.Loc.Comp] == "" {
				continue
			}
			if f.escapedBefore(a, f.curBlock, f.curIdx) {
				continue
			}
			c := e.comps[r.Loc.Comp]
			e.set(st, c, store(e.get(st, c), r.Loc.Base, sel(oldSyms[r.Loc.Comp], r.Loc.Base)))
		}
	}
}

// directCallFams adds the call-ghost families of the calls made directly by the given blocks,
// following callees that the encoder expands in place (inline contracts, getters, closures).
func (e *Enc) directCallFams(fn *ssa.Function, blocks []*ssa.BasicBlock, ms *ModSet, depth int, seen map[*ssa.Function]bool) {
	for _, b := range blocks {
		for _, ins := range b.Instrs {
			if u, ok := ins.(*ssa.UnOp); ok && u.Op == token.ARROW {
				ms.add("G:recv")
				ms.add("G:chan")
			}
			switch ins.(type) {
			case *ssa.Send, *ssa.Select:
				ms.add("G:chan")
			}
			var c *ssa.CallCommon
			switch x := ins.(type) {
			case *ssa.Call:
				c = &x.Call
			case *ssa.Defer:
				c = &x.Call
			}
			if c == nil {
				continue
			}
			if _, ok := c.Value.(*ssa.Builtin); ok {
				continue
			}
			if c.IsInvoke() {
				short := typeStr(c.Value.Type())
				if n, ok := c.Value.Type().(*types.Named); ok {
					short = n.Obj().Name()
				}
				ms.add("G:calls:" + short + "." + c.Method.Name())
				continue
			}
			callee := c.StaticCallee()
			if callee == nil {
				callee = e.mods.resolveDyn(c.Value)
			}
			if callee == nil {
				ms.add("G:calls:dyn:" + dynName(c.Value))
				continue
			}
			name := shortFuncName(callee)
			ms.add("G:calls:" + name)
			full := callee.String()
			switch full {
			case "(*sync.Cond).Signal", "(*sync.Cond).Broadcast":
				ms.add("G:calls:Cond." + callee.Name())
			case "fmt.Errorf", "errors.New":
				ms.add("G:calls:" + full)
			}
			fc := e.cs.Funcs[name]
			expands := (fc != nil && fc.Inline) || (fc == nil && e.autoInline(callee))
			if expands && callee.Blocks != nil && depth < maxInlineDepth && !seen[callee] {
				seen[callee] = true
				e.directCallFams(callee, callee.Blocks, ms, depth+1, seen)
			}
		}
	}
}

func (e *Enc) restoreLoopPrivateCells(fr *Frame, li *loopInfo, entrySt, st *St) {
	written := map[*ssa.Alloc]bool{}
	var scan func(fn *ssa.Function, blocks []*ssa.BasicBlock, depth int)
	seen := map[*ssa.Function]bool{}
	scan = func(fn *ssa.Function, blocks []*ssa.BasicBlock, depth int) {
		for _, b := range blocks {
			for _, ins := range b.Instrs {
				switch x := ins.(type) {
				case *ssa.Store:
					if a, ok := x.Addr.(*ssa.Alloc); ok {
						written[a] = true
					}
					if u, ok := x.Addr.(*ssa.FreeVar); ok {
						// store through a captured variable inside an expanded closure: find the alloc
						for f := fr; f != nil; f = f.caller {
							for v := range f.regs {
								if a, ok := v.(*ssa.Alloc); ok && a.Comment == u.Name() {
									written[a] = true
								}
							}
						}
					}
				case *ssa.MakeClosure:
					if cf, ok := x.Fn.(*ssa.Function); ok && !seen[cf] && depth < 4 {
						seen[cf] = true
						scan(cf, cf.Blocks, depth+1)
					}
				}
			}
		}
	}
	var blocks []*ssa.BasicBlock
	for b := range li.blocks {
		blocks = append(blocks, b)
	}
	scan(fr.fn, blocks, 0)
	for f := fr; f != nil; f = f.caller {
		var allocs []*ssa.Alloc
		for v := range f.regs {
			if a, ok := v.(*ssa.Alloc); ok && a.Heap && !written[a] {
				allocs = append(allocs, a)
			}
		}
		sort.Slice(allocs, func(i, j int) bool { return allocs[i].Name() < allocs[j].Name() })
		for _, a := range allocs {
			r := f.regs[a]
			if r.Loc == nil || r.Loc.Kind != "cell" {
				continue
			}
			c := e.comps[r.Loc.Comp]
			if e.get(entrySt, c) == e.get(st, c) {
				continue
			}
			blk, idx := li.head, 0
			if f != fr {
				blk, idx = f.curBlock, f.curIdx
			}
			if f.escapedBefore(a, blk, idx) || (f == fr && f.escapesInLoop(a, li)) {
				continue
			}
			e.set(st, c, store(e.get(st, c), r.Loc.Base, sel(e.get(entrySt, c), r.Loc.Base)))
		}
	}
}

// escapeSites: instructions through which the address of a heap-allocated local leaves the
// function's direct control (stored somewhere, passed to a call, captured by a closure that
// itself escapes).
func (f *Frame) escapeSitesOf(a *ssa.Alloc) []ssa.Instruction {
	if f.escSites == nil {
		f.escSites = map[*ssa.Alloc][]ssa.Instruction{}
	}
	if s, ok := f.escSites[a]; ok {
		return s
	}
	var sites []ssa.Instruction
	refs := a.Referrers()
	if refs != nil {
		for _, r := range *refs {
			switch x := r.(type) {
			case *ssa.Store:
				if x.Val == ssa.Value(a) {
					sites = append(sites, x)
				}
			case *ssa.UnOp, *ssa.DebugRef:
			case *ssa.MakeClosure:
				escapes := false
				crefs := x.Referrers()
				if crefs == nil {
					escapes = true
				} else {
					for _, cr := range *crefs {
						switch y := cr.(type) {
						case *ssa.Go:
							if y.Call.Value != ssa.Value(x) {
								escapes = true
							}
						case *ssa.Call:
							if y.Call.Value != ssa.Value(x) {
								escapes = true
							}
						case *ssa.Defer:
							if y.Call.Value != ssa.Value(x) {
								escapes = true
							}
						case *ssa.Store:
							la, ok := y.Addr.(*ssa.Alloc)
							if !ok || la.Heap || !localOnlyCalled(la) {
								escapes = true
							}
						case *ssa.DebugRef:
						default:
							escapes = true
						}
					}
				}
				if escapes {
					sites = append(sites, x)
				}
			default:
				if ins, ok := r.(ssa.Instruction); ok {
					sites = append(sites, ins)
				}
			}
		}
	}
	f.escSites[a] = sites
	return sites
}

func blockReaches(from, to *ssa.BasicBlock) bool {
	seen := map[*ssa.BasicBlock]bool{}
	stack := []*ssa.BasicBlock{}
	for _, s := range from.Succs {
		stack = append(stack, s)
	}
	for len(stack) > 0 {
		b := stack[len(stack)-1]
		stack = stack[:len(stack)-1]
		if b == to {
			return true
		}
		if seen[b] {
			continue
		}
		seen[b] = true
		stack = append(stack, b.Succs...)
	}
	return false
}

// escapedBefore: some escape site of a may have executed before instruction idx of block blk.
func (f *Frame) escapedBefore(a *ssa.Alloc, blk *ssa.BasicBlock, idx int) bool {
	if blk == nil {
		return true
	}
	for _, s := range f.escapeSitesOf(a) {
		sb := s.Block()
		if sb == blk {
			for i, ins := range sb.Instrs {
				if ins == s && i < idx {
					return true
				}
			}
			if blockReaches(sb, blk) { // through a cycle
				return true
			}
			continue
		}
		if blockReaches(sb, blk) {
			return true
		}
	}
	return false
}

func (f *Frame) escapesInLoop(a *ssa.Alloc, li *loopInfo) bool {
	for _, s := range f.escapeSitesOf(a) {
		if li.blocks[s.Block()] {
			return true
		}
	}
	return false
}

// restoreOwned: encapsulation. For every "owns S: f..." declaration whose struct the current
// callee(s) never access, the maps hanging from the owned fields of the S objects in scope keep
// their contents across the call.
func (e *Enc) restoreOwned(fr *Frame, st *St, oldSyms map[string]string) {
	if len(e.cs.Owns) == 0 || e.curCallees == nil {
		return
	}
	// map types a callee can reach without going through the owning field: its parameters,
	// receiver and captured variables (one level of pointer/slice indirection)
	reach := map[string]bool{}
	var addT func(t types.Type, depth int)
	addT = func(t types.Type, depth int) {
		if depth > 3 {
			return
		}
		switch u := t.Underlying().(type) {
		case *types.Map:
			reach[typeStr(t)] = true
			addT(u.Elem(), depth+1)
		case *types.Pointer:
			if _, isSt := u.Elem().Underlying().(*types.Struct); !isSt {
				addT(u.Elem(), depth+1)
			}
		case *types.Slice:
			addT(u.Elem(), depth+1)
		}
	}
	for _, callee := range e.curCallees {
		if callee == nil {
			continue
		}
		for _, p := range callee.Params {
			addT(p.Type(), 0)
		}
		for _, fv := range callee.FreeVars {
			addT(fv.Type(), 0)
		}
	}
	for _, sname := range sortedKeys(e.cs.Owns) {
		var untouched []string
		for _, fld := range e.cs.Owns[sname] {
			touched := false
			for _, callee := range e.curCallees {
				if callee == nil || e.mods.accessesField(callee, sanitize(sname), fld) {
					touched = true
				}
			}
			if !touched {
				untouched = append(untouched, fld)
			}
		}
		if len(untouched) == 0 {
			continue
		}
		// S objects in scope: pointer-typed parameters of the frames on the stack
		seen := map[string]bool{}
		for f := fr; f != nil; f = f.caller {
			for i, p := range f.fn.Params {
				pt, ok := p.Type().Underlying().(*types.Pointer)
				if !ok || i >= len(f.params) {
					continue
				}
				if e.structName(pt.Elem()) != sanitize(sname) {
					continue
				}
				owner := f.params[i].T
				if seen[owner] {
					continue
				}
				seen[owner] = true
				// a map handed to the callee as an argument is reachable without the field
				var flds []string
				if u, ok := pt.Elem().Underlying().(*types.Struct); ok {
					for _, fld := range untouched {
						for k := 0; k < u.NumFields(); k++ {
							if u.Field(k).Name() != fld {
								continue
							}
							mt, ok := u.Field(k).Type().Underlying().(*types.Map)
							if !ok {
								continue
							}
							if reach[typeStr(u.Field(k).Type())] {
								continue
							}
							if inner, ok := mt.Elem().Underlying().(*types.Map); ok && reach[typeStr(inner)] {
								continue
							}
							flds = append(flds, fld)
						}
					}
				}
				e.restoreOwnedOf(pt.Elem(), owner, flds, st, oldSyms)
			}
		}
	}
	e.note("encapsulation (owns declarations): a callee that never accesses an owned field of the owning struct, and is not handed a map of that type, leaves the maps stored in that field unchanged")
}

func (e *Enc) restoreOwnedOf(t types.Type, owner string, fields []string, st *St, oldSyms map[string]string) {
	u, ok := t.Underlying().(*types.Struct)
	if !ok {
		return
	}
	pre := func(c *Comp) string {
		if s, ok := oldSyms[c.Name]; ok {
			return s
		}
		return e.get(st, c)
	}
	for i := 0; i < u.NumFields(); i++ {
		f := u.Field(i)
		want := false
		for _, n := range fields {
			if n == f.Name() {
				want = true
			}
		}
		if !want {
			continue
		}
		mt, ok := f.Type().Underlying().(*types.Map)
		if !ok {
			continue
		}
		fc := e.fieldComp(t, i)
		m := sel(pre(fc), owner)
		d, v, l := e.mapComps(mt)
		for _, c := range []*Comp{d, v, l} {
			if p := pre(c); p != e.get(st, c) {
				e.assume(eq(sel(e.get(st, c), m), sel(p, m)))
			}
		}
		if inner, ok := mt.Elem().Underlying().(*types.Map); ok {
			id, iv, il := e.mapComps(inner)
			ks := e.sortOf(mt.Key())
			for _, c := range []*Comp{id, iv, il} {
				if p := pre(c); p != e.get(st, c) {
					e.assume(fmt.Sprintf("(forall ((k %s)) (! (=> (select (select %s %s) k) (= (select %s (select (select %s %s) k)) (select %s (select (select %s %s) k)))) :pattern ((select (select %s %s) k))))",
						ks, pre(d), m, e.get(st, c), pre(v), m, p, pre(v), m, pre(v), m))
				}
			}
		}
	}
}

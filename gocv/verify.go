package main

import (
	"fmt"
	"go/types"
	"strings"

	"golang.org/x/tools/go/ssa"
)

type FuncResult struct {
	Name   string
	Enc    *Enc
	Obls   []*Obl
	Errs   []string
	Passes int
}

// encodeFunc builds the verification conditions of one function under its contract.
func encodeFunc(w *World, cs *Contracts, mods *ModAnalysis, name string) *FuncResult {
	fn := w.Funcs[name]
	fc := cs.Funcs[name]
	res := &FuncResult{Name: name}
	if fn == nil {
		res.Errs = append(res.Errs, "contract drift: function "+name+" not found in the package")
		return res
	}
	allocCounter = fc != nil && fc.AllocCounter
	var pre []*Comp
	var e *Enc
	var prevDT []string
	var prevSeen map[string]bool
	for pass := 1; pass <= 3; pass++ {
		e = newEnc(w, cs, mods)
		if prevDT != nil {
			e.dtHdr = append(e.dtHdr, prevDT...)
			for k := range prevSeen {
				e.dtSeen[k] = true
			}
		}
		for _, c := range pre {
			if c.Kind == "local" {
				continue
			}
			e.comp(c.Name, c.Sort, c.Kind, c.Fam)
		}
		e.encodeTop(fn, fc, name)
		res.Passes = pass
		// did this pass discover components the previous one did not know?
		n := 0
		for _, cn := range e.compOrder {
			if e.comps[cn].Kind != "local" {
				n++
			}
		}
		np := 0
		for _, c := range pre {
			if c.Kind != "local" {
				np++
			}
		}
		if n == np {
			break
		}
		pre = nil
		for _, cn := range e.compOrder {
			pre = append(pre, e.comps[cn])
		}
		prevDT = append([]string{}, e.dtHdr...)
		prevSeen = e.dtSeen
	}
	res.Enc = e
	res.Obls = e.obls
	res.Errs = e.errs
	return res
}

func (e *Enc) encodeTop(fn *ssa.Function, fc *FuncContract, name string) {
	e.top = fn
	e.topName = name
	e.topContract = fc
	if fc != nil {
		e.safeMode = fc.Safe
	}
	fr := e.newFrame(fn, nil)
	fr.isTop = true
	e.topFrame = fr
	st := &St{v: map[string]string{}}
	cur := &pathState{"true", st}
	// make sure the basic components exist before anything snapshots the state
	e.allocComp()
	e.clockComp()
	e.heldComp()
	// parameters
	for i, p := range fn.Params {
		s := e.sortOf(p.Type())
		n := "p_" + sanitize(p.Name())
		if p.Name() == "" || p.Name() == "_" {
			n = fmt.Sprintf("p_anon%d", i)
		}
		e.declare(n, s)
		v := Val{T: n, S: s, Typ: p.Type()}
		e.typeFacts(v, p.Type(), cur)
		fr.params = append(fr.params, v)
	}
	// receiver of a method is non-nil (callers are checked for that in safe mode)
	if fn.Signature.Recv() != nil && len(fr.params) > 0 && fr.params[0].S == "Ref" && !nilSafeMethod(fn) {
		e.assume(not(eq(fr.params[0].T, "nil")))
		e.assume(isAlloc(e.get(st, e.allocComp()), fr.params[0].T))
	}
	// free variables of closures verified on their own: symbolic cells
	for _, fv := range fn.FreeVars {
		n := "fv_" + sanitize(fv.Name())
		e.declare(n, "Ref")
		e.assume(not(eq(n, "nil")))
		e.assume(isAlloc(e.get(st, e.allocComp()), n))
		v := Val{T: n, S: "Ref", Typ: fv.Type()}
		fr.binds = append(fr.binds, v)
	}
	e.assume("(> " + e.get(st, e.clockComp()) + " 0)")
	// convention: nil counts as allocated, so "reference is nil or allocated" is a unit fact
	if allocCounter {
		e.assume("(>= " + e.get(st, e.allocComp()) + " 0)")
	} else {
		e.assume(sel(e.get(st, e.allocComp()), "nil"))
	}
	// no monitor lock is held on entry (unless the contract says "holds")
	e.assume(eq(e.get(st, e.heldComp()), "((as const (Array Ref Bool)) false)"))
	// callback ghosts start empty: nothing passed yet, no call has returned false yet
	for _, cn := range e.compOrder {
		c := e.comps[cn]
		switch {
		case strings.HasPrefix(cn, "alltrue_"):
			e.assume(e.get(st, c))
		case strings.HasPrefix(cn, "passed") && strings.HasPrefix(c.Sort, "(Array ") && strings.HasSuffix(c.Sort, " Bool)") && c.Kind == "ghost" && strings.HasPrefix(c.Fam, "G:calls:dyn:"):
			e.assume(eq(e.get(st, c), "((as const "+c.Sort+") false)"))
		}
	}
	entry := st.clone()
	fr.entry = entry
	// function-local definitions pinned to the entry state
	if fc != nil {
		for _, lf := range fc.Lets {
			if e.lets == nil {
				e.lets = map[string]*letFn{}
			}
			var as, decls []string
			ctx := e.frameCtx(fr, st, st, false)
			c2 := ctx
			for _, p := range lf.Params {
				s0, t0 := e.specSort(p.Type, lf.Pkg, fn.Pos())
				as = append(as, s0)
				e.nfresh++
				vn := fmt.Sprintf("%s?%d", sanitize(p.Name), e.nfresh)
				decls = append(decls, "("+vn+" "+s0+")")
				c2 = c2.bind(p.Name, SV{T: vn, Sort: s0, Typ: t0})
			}
			rs, _ := e.specSort(lf.Ret, lf.Pkg, fn.Pos())
			sym := "let_" + sanitize(lf.Name)
			if len(as) == 0 {
				e.hdrOnce("let:"+sym, fmt.Sprintf("(declare-const %s %s)", sym, rs))
			} else {
				e.hdrOnce("let:"+sym, fmt.Sprintf("(declare-fun %s (%s) %s)", sym, strings.Join(as, " "), rs))
			}
			e.lets[lf.Name] = &letFn{sym: sym, argSorts: as, ret: rs}
			if lf.Body != nil {
				body, err := e.evalSpec(lf.Body, c2)
				if err != nil {
					e.errorf("%s: let %s: %v", name, lf.Name, err)
					continue
				}
				body = e.adapt(body, rs)
				var app string
				var vs []string
				for _, d := range decls {
					vs = append(vs, strings.Fields(strings.Trim(d, "()"))[0])
				}
				if len(vs) == 0 {
					e.assume(eq(sym, body.T))
				} else {
					app = "(" + sym + " " + strings.Join(vs, " ") + ")"
					e.assume(fmt.Sprintf("(forall (%s) (! (= %s %s) :pattern (%s)))", strings.Join(decls, " "), app, body.T, app))
				}
			}
		}
	}
	if fc != nil {
		// monitors held on entry
		for _, h := range fc.Holds {
			e.assumeHeld(fr, h, cur)
		}
		for _, c := range fc.Requires {
			t, err := e.evalClause(fr, c, st, st, nil, false)
			if err != nil {
				e.errorf("%s: requires %s: %v", name, c.Label, err)
				continue
			}
			e.assume(t)
		}
	}
	// global axioms about uninterpreted spec functions
	used := e.usedSpecFns(fc)
	for _, ax := range e.cs.Axioms {
		relevant := false
		for n := range callNames(ax.Expr, map[string]bool{}) {
			if sf := e.cs.SpecFns[n]; sf != nil && sf.Body == nil && used[n] {
				relevant = true
			}
		}
		if !relevant {
			continue
		}
		ctx := &SpecCtx{e: e, pkg: modPath, params: map[string]SV{}, cur: st, old: st}
		sv, err := e.evalSpec(ax.Expr, ctx)
		if err != nil {
			e.errorf("axiom %s: %v", ax.Label, err)
			continue
		}
		e.assume(sv.T)
	}
	e.addCover("requires-satisfiable", "true")
	entry = cur.st.clone()
	fr.entry = entry
	exit, results, ok := e.runFunction(fr, pathState{cur.reach, cur.st})
	if !ok {
		return
	}
	if exit.reach == "false" {
		// never returns normally
		return
	}
	if fc == nil {
		return
	}
	e.addCover("exit-reachable", exit.reach)
	if len(fc.GhostEffects) > 0 {
		// definitional ghost update applied at exit: the ghost variables named in the modifies
		// clause take new values related to their pre-effect values by the ghost-effect clauses
		preEffect := exit.st.clone()
		for _, m := range fc.Modifies {
			id, ok := m.(*SIdent)
			if !ok {
				continue
			}
			if _, isG := e.cs.Ghosts[id.Name]; !isG {
				continue
			}
			if _, tracked := e.cs.Tracks[id.Name]; tracked {
				// a ghost that abstracts real state: the effect clause bounds how callers see it
				// change (an assumption about the callees, listed) and is not a definitional update
				e.note("assumed bound on how " + name + " changes the abstracted state " + id.Name + " (ghost-effect on a tracked ghost; to be discharged by the frame of the state's own functions)")
				continue
			}
			gc := e.ghostComp(id.Name)
			// the body itself must not have changed the ghost (single definitional update)
			e.addObl("ghost", "unchanged-before-effect:"+id.Name, exit.reach, eq(e.get(exit.st, gc), e.get(entry, gc)), fn.Pos(), "the body leaves ghost "+id.Name+" to the ghost-effect")
			e.havocComp(exit.st, gc, "")
		}
		for _, c := range fc.GhostEffects {
			ctx := e.frameCtx(fr, exit.st, preEffect, false)
			ctx.results = results
			sv, err := e.evalSpec(c.Expr, ctx)
			if err != nil {
				e.errorf("%s: ghost-effect %s: %v", name, c.Label, err)
				continue
			}
			e.assumeIf(exit.reach, sv.T)
		}
	}
	for i, c := range fc.Ensures {
		lbl := c.Label
		if lbl == "" {
			lbl = fmt.Sprint(i + 1)
		}
		parts := splitConjuncts(c.Expr)
		for j, part := range parts {
			ctx := e.frameCtx(fr, exit.st, entry, false)
			ctx.results = results
			sv, err := e.evalSpec(part, ctx)
			if err != nil {
				e.errorf("%s: ensures %s: %v", name, c.Label, err)
				continue
			}
			l := lbl
			if len(parts) > 1 {
				l = fmt.Sprintf("%s.%d", lbl, j+1)
			}
			e.addObl("ensures", l, exit.reach, sv.T, fn.Pos(), part.String())
		}
	}
	for _, h := range fc.Holds {
		e.assertHeldInv(fr, h, &exit)
	}
	if !fc.NoFrame && (fc.HasMod || len(fc.Ensures) > 0) {
		e.checkFrame(fr, fc, entry, exit.st, exit.reach)
	}
	// preserves clauses must be reflexive and transitive (they are assumed across an unknown
	// number of calls made by external higher-order functions such as sort.Slice)
	for i, c := range fc.Preserves {
		lbl := c.Label
		if lbl == "" {
			lbl = fmt.Sprint(i + 1)
		}
		ctx := e.frameCtx(fr, entry, entry, false)
		if sv, err := e.evalSpec(c.Expr, ctx); err == nil {
			e.addObl("preserves", lbl+":reflexive", "true", sv.T, fn.Pos(), c.Text)
		}
		top := newModSet()
		top.Top = true
		b := entry.clone()
		e.havocMods(fr, b, top, false)
		cst := b.clone()
		e.havocMods(fr, cst, top, false)
		ab, err1 := e.evalSpec(c.Expr, e.frameCtx(fr, b, entry, false))
		bc, err2 := e.evalSpec(c.Expr, e.frameCtx(fr, cst, b, false))
		ac, err3 := e.evalSpec(c.Expr, e.frameCtx(fr, cst, entry, false))
		if err1 != nil || err2 != nil || err3 != nil {
			e.errorf("%s: preserves %s: %v %v %v", name, c.Label, err1, err2, err3)
			continue
		}
		e.addObl("preserves", lbl+":transitive", "true", implies(and(ab.T, bc.T), ac.T), fn.Pos(), c.Text)
	}
}

// assumeHeld: "holds Struct.mutex" — the receiver's mutex is held on entry, invariant assumed.
func (e *Enc) assumeHeld(fr *Frame, h string, cur *pathState) {
	m, owner := e.heldMonitor(fr, h)
	if m == nil {
		e.errorf("%s: holds %s: no such monitor", fr.name, h)
		return
	}
	t := e.monitorStructType(m)
	u := t.Underlying().(*types.Struct)
	for i := 0; i < u.NumFields(); i++ {
		if u.Field(i).Name() == m.Mutex {
			mu := e.subAddr(t, i, owner)
			hc := e.heldComp()
			e.set(cur.st, hc, store(e.get(cur.st, hc), mu, "true"))
		}
	}
	for _, inv := range e.monitorInv(m, owner, cur.st) {
		e.assume(inv)
	}
}

func (e *Enc) assertHeldInv(fr *Frame, h string, exit *pathState) {
	m, owner := e.heldMonitor(fr, h)
	if m == nil {
		return
	}
	for i, inv := range e.monitorInv(m, owner, exit.st) {
		lbl := m.Inv[i].Label
		if lbl == "" {
			lbl = fmt.Sprint(i + 1)
		}
		e.addObl("monitor", fmt.Sprintf("%s.%s:%s@exit", m.Struct, m.Mutex, lbl), exit.reach, inv, fr.fn.Pos(), m.Inv[i].Text)
	}
}

func (e *Enc) heldMonitor(fr *Frame, h string) (*Monitor, string) {
	// h = Struct.mutex[@param]; owner defaults to the receiver
	ownerName := ""
	if i := strings.Index(h, "@"); i >= 0 {
		ownerName = h[i+1:]
		h = h[:i]
	}
	for _, m := range e.cs.Monitors {
		if m.Struct+"."+m.Mutex == h {
			owner := ""
			if ownerName == "" && len(fr.params) > 0 {
				owner = fr.params[0].T
			}
			for i, p := range fr.fn.Params {
				if p.Name() == ownerName {
					owner = fr.params[i].T
				}
			}
			return m, owner
		}
	}
	return nil, ""
}

// splitConjuncts turns A && B into [A, B] and P ==> (A && B) into [P ==> A, P ==> B], recursively,
// so that each conjunct becomes its own (smaller, separately named) obligation.
func splitConjuncts(x SExpr) []SExpr {
	switch n := x.(type) {
	case *SBin:
		switch n.Op {
		case "&&":
			return append(splitConjuncts(n.L), splitConjuncts(n.R)...)
		case "==>":
			var out []SExpr
			for _, r := range splitConjuncts(n.R) {
				out = append(out, &SBin{"==>", n.L, r})
			}
			return out
		}
	}
	return []SExpr{x}
}

// callNames collects the names of the functions applied in a spec expression.
func callNames(x SExpr, out map[string]bool) map[string]bool {
	switch n := x.(type) {
	case *SCall:
		out[strings.TrimPrefix(n.Fn, ".")] = true
		for _, a := range n.Args {
			callNames(a, out)
		}
	case *SBin:
		callNames(n.L, out)
		callNames(n.R, out)
	case *SUn:
		callNames(n.X, out)
	case *SQuant:
		callNames(n.Body, out)
	case *SField:
		callNames(n.X, out)
	case *SIndex:
		callNames(n.X, out)
		callNames(n.I, out)
	}
	return out
}

// usedSpecFns: spec functions mentioned (transitively through spec fn bodies) by a contract.
func (e *Enc) usedSpecFns(fc *FuncContract) map[string]bool {
	used := map[string]bool{}
	if fc == nil {
		return used
	}
	var work []SExpr
	add := func(cs []*Clause) {
		for _, c := range cs {
			work = append(work, c.Expr)
		}
	}
	add(fc.Requires)
	add(fc.Ensures)
	add(fc.GhostEffects)
	add(fc.CallAsserts)
	add(fc.InlineLoopInv)
	for _, l := range fc.LoopInv {
		add(l)
	}
	for _, l := range fc.Lets {
		if l.Body != nil {
			work = append(work, l.Body)
		}
	}
	for len(work) > 0 {
		x := work[len(work)-1]
		work = work[:len(work)-1]
		for n := range callNames(x, map[string]bool{}) {
			if used[n] {
				continue
			}
			used[n] = true
			if sf := e.cs.SpecFns[n]; sf != nil && sf.Body != nil {
				work = append(work, sf.Body)
			}
		}
	}
	return used
}

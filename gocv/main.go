package main

import (
	"flag"
	"fmt"
	"os"
	"path/filepath"
	"sort"
	"strings"
	"time"
)

func pkgPathOfDir(root string) func(string) string {
	return func(dir string) string {
		rel, err := filepath.Rel(root, dir)
		if err != nil || rel == "." {
			return modPath
		}
		return modPath + "/" + filepath.ToSlash(rel)
	}
}

func main() {
	if len(os.Args) < 2 {
		fmt.Fprintln(os.Stderr, "usage: gocv <verify|check|ssa|list> ...")
		os.Exit(2)
	}
	switch os.Args[1] {
	case "verify":
		cmdVerify(os.Args[2:])
	case "check":
		cmdCheck(os.Args[2:])
	case "ssa":
		cmdSSA(os.Args[2:])
	case "list":
		cmdList(os.Args[2:])
	case "diag":
		cmdDiag(os.Args[2:])
	case "baseline":
		cmdBaseline(os.Args[2:])
	default:
		fmt.Fprintln(os.Stderr, "unknown command", os.Args[1])
		os.Exit(2)
	}
}

func loadAll(repo string) (*World, *Contracts, *ModAnalysis) {
	t0 := time.Now()
	w, err := loadWorld(repo)
	if err != nil {
		fmt.Fprintln(os.Stderr, "load:", err)
		os.Exit(2)
	}
	cs, err := loadContracts(repo, pkgPathOfDir(repo))
	if err != nil {
		fmt.Fprintln(os.Stderr, "contracts:", err)
		os.Exit(2)
	}
	mods := newModAnalysis(w, cs)
	fmt.Fprintf(os.Stderr, "loaded %d functions, %d contracts in %.1fs\n", len(w.Funcs), len(cs.Funcs), time.Since(t0).Seconds())
	return w, cs, mods
}

func cmdSSA(args []string) {
	fs := flag.NewFlagSet("ssa", flag.ExitOnError)
	repo := fs.String("repo", "/repo", "repository")
	fs.Parse(args)
	w, _, _ := loadAll(*repo)
	for _, n := range fs.Args() {
		fn := w.Funcs[n]
		if fn == nil {
			fmt.Println("not found:", n)
			continue
		}
		fn.WriteTo(os.Stdout)
	}
}

func cmdList(args []string) {
	fs := flag.NewFlagSet("list", flag.ExitOnError)
	repo := fs.String("repo", "/repo", "repository")
	fs.Parse(args)
	w, _, _ := loadAll(*repo)
	for _, n := range w.sortedFuncNames() {
		if len(fs.Args()) == 0 || strings.Contains(n, fs.Arg(0)) {
			fmt.Println(n)
		}
	}
}

func cmdVerify(args []string) {
	fs := flag.NewFlagSet("verify", flag.ExitOnError)
	repo := fs.String("repo", "/repo", "repository")
	timeout := fs.Int("timeout", 10, "per-obligation timeout (s)")
	keep := fs.Bool("keep", false, "keep SMT files")
	dir := fs.String("dir", "", "scratch dir")
	verbose := fs.Bool("v", false, "verbose")
	fs.Parse(args)
	w, cs, mods := loadAll(*repo)
	d := *dir
	if d == "" {
		d, _ = os.MkdirTemp("", "gocv")
		if !*keep {
			defer os.RemoveAll(d)
		}
	}
	os.MkdirAll(d, 0o755)
	names := fs.Args()
	if len(names) == 0 {
		for n := range cs.Funcs {
			names = append(names, n)
		}
		sort.Strings(names)
	}
	bad := 0
	for _, n := range names {
		t0 := time.Now()
		fr := encodeFunc(w, cs, mods, n)
		for _, e := range fr.Errs {
			fmt.Println("  ERROR:", e)
			bad++
		}
		if fr.Enc == nil {
			continue
		}
		rs := solveAll(fr, solveOpts{timeoutS: *timeout, workers: 16, dir: d, keep: *keep})
		np := 0
		for _, r := range rs {
			ok := r.Status == "proved" || r.Status == "cover-ok" || r.Status == "cover-unknown"
			if ok {
				np++
			} else {
				bad++
			}
			if r.ToolError != "" {
				fmt.Println("  TOOL-ERROR:", r.ToolError)
			}
			if *verbose || !ok {
				fmt.Printf("  %-14s %-8s %5.2fs %s\n", r.Status, r.Solver, r.Seconds, r.Obl.Name)
				if !ok && r.Obl.Desc != "" {
					fmt.Printf("      %s\n", r.Obl.Desc)
				}
			}
		}
		fmt.Printf("%s: %d/%d obligations ok, %d lines, passes=%d, %.1fs\n", n, np, len(rs), len(fr.Enc.out), fr.Passes, time.Since(t0).Seconds())
		if *verbose {
			for _, a := range sortedKeys(fr.Enc.assumptions) {
				fmt.Println("   assume:", a)
			}
		}
	}
	if bad > 0 {
		os.Exit(1)
	}
}

package main

import (
	"fmt"
	"strings"
	"unicode"
)

// ---- spec expression AST ----

type SExpr interface{ String() string }

type (
	SLit struct { // int, float, string, bool, nil
		Kind string // "int","float","string","bool","nil"
		Val  string
	}
	SIdent struct{ Name string }
	SField struct {
		X    SExpr
		Name string
	}
	SIndex struct{ X, I SExpr }
	SCall  struct {
		Fn   string
		Args []SExpr
	}
	SUn struct {
		Op string
		X  SExpr
	}
	SBin struct {
		Op   string
		L, R SExpr
	}
	SQuant struct {
		Forall bool
		Vars   []SBinder
		Body   SExpr
	}
	SBinder struct {
		Name string
		Type string // Go type text, or spec sort
	}
)

func (e *SLit) String() string {
	if e.Kind == "string" {
		return fmt.Sprintf("%q", e.Val)
	}
	return e.Val
}
func (e *SIdent) String() string { return e.Name }
func (e *SField) String() string { return e.X.String() + "." + e.Name }
func (e *SIndex) String() string { return e.X.String() + "[" + e.I.String() + "]" }
func (e *SCall) String() string {
	var a []string
	for _, x := range e.Args {
		a = append(a, x.String())
	}
	return e.Fn + "(" + strings.Join(a, ", ") + ")"
}
func (e *SUn) String() string  { return e.Op + e.X.String() }
func (e *SBin) String() string { return "(" + e.L.String() + " " + e.Op + " " + e.R.String() + ")" }
func (e *SQuant) String() string {
	q := "exists"
	if e.Forall {
		q = "forall"
	}
	var vs []string
	for _, v := range e.Vars {
		vs = append(vs, v.Name+" "+v.Type)
	}
	return "(" + q + " " + strings.Join(vs, ", ") + " :: " + e.Body.String() + ")"
}

// ---- lexer ----

type tok struct {
	kind string // ident int float string op eof
	val  string
	pos  int
}

func lexSpec(s string) ([]tok, error) {
	var toks []tok
	i := 0
	for i < len(s) {
		c := s[i]
		switch {
		case c == ' ' || c == '\t' || c == '\n' || c == '\r':
			i++
		case unicode.IsLetter(rune(c)) || c == '_' || c == '$':
			j := i + 1
			for j < len(s) && (unicode.IsLetter(rune(s[j])) || unicode.IsDigit(rune(s[j])) || s[j] == '_' || s[j] == '$' || s[j] == '#') {
				j++
			}
			toks = append(toks, tok{"ident", s[i:j], i})
			i = j
		case unicode.IsDigit(rune(c)):
			j := i + 1
			isf := false
			for j < len(s) && (unicode.IsDigit(rune(s[j])) || s[j] == '.' || s[j] == '_') {
				if s[j] == '.' {
					// could be a range/field? only accept if followed by digit
					if j+1 < len(s) && unicode.IsDigit(rune(s[j+1])) {
						isf = true
					} else {
						break
					}
				}
				j++
			}
			v := strings.ReplaceAll(s[i:j], "_", "")
			if isf {
				toks = append(toks, tok{"float", v, i})
			} else {
				toks = append(toks, tok{"int", v, i})
			}
			i = j
		case c == '"':
			j := i + 1
			for j < len(s) && s[j] != '"' {
				if s[j] == '\\' {
					j++
				}
				j++
			}
			if j >= len(s) {
				return nil, fmt.Errorf("unterminated string at %d", i)
			}
			toks = append(toks, tok{"string", s[i+1 : j], i})
			i = j + 1
		default:
			ops := []string{"<==>", "==>", "::", "==", "!=", "<=", ">=", "&&", "||", "<", ">", "+", "-", "*", "/", "%", "!", "(", ")", "[", "]", ".", ",", "{", "}", ":"}
			matched := false
			for _, op := range ops {
				if strings.HasPrefix(s[i:], op) {
					toks = append(toks, tok{"op", op, i})
					i += len(op)
					matched = true
					break
				}
			}
			if !matched {
				return nil, fmt.Errorf("bad character %q at %d in %q", c, i, s)
			}
		}
	}
	toks = append(toks, tok{"eof", "", len(s)})
	return toks, nil
}

// ---- parser ----

type sparser struct {
	toks []tok
	p    int
	src  string
}

func parseSpec(s string) (SExpr, error) {
	toks, err := lexSpec(s)
	if err != nil {
		return nil, err
	}
	ps := &sparser{toks: toks, src: s}
	e, err := ps.expr()
	if err != nil {
		return nil, err
	}
	if ps.peek().kind != "eof" {
		return nil, fmt.Errorf("unexpected %q at %d in %q", ps.peek().val, ps.peek().pos, s)
	}
	return e, nil
}

func (p *sparser) peek() tok { return p.toks[p.p] }
func (p *sparser) next() tok  { t := p.toks[p.p]; p.p++; return t }
func (p *sparser) isOp(v string) bool {
	t := p.peek()
	return t.kind == "op" && t.val == v
}
func (p *sparser) isIdent(v string) bool {
	t := p.peek()
	return t.kind == "ident" && t.val == v
}
func (p *sparser) expect(v string) error {
	if !p.isOp(v) {
		return fmt.Errorf("expected %q at %d, got %q in %q", v, p.peek().pos, p.peek().val, p.src)
	}
	p.next()
	return nil
}

func (p *sparser) expr() (SExpr, error) {
	if p.isIdent("forall") || p.isIdent("exists") {
		fa := p.next().val == "forall"
		var vars []SBinder
		for {
			t := p.next()
			if t.kind != "ident" {
				return nil, fmt.Errorf("expected binder name at %d in %q", t.pos, p.src)
			}
			// type text: tokens until top-level ',' or '::'
			depth := 0
			start := p.peek().pos
			end := start
			for {
				tk := p.peek()
				if tk.kind == "eof" {
					return nil, fmt.Errorf("unterminated binder in %q", p.src)
				}
				if depth == 0 && tk.kind == "op" && (tk.val == "," || tk.val == "::") {
					break
				}
				if tk.kind == "op" && (tk.val == "[" || tk.val == "(" || tk.val == "{") {
					depth++
				}
				if tk.kind == "op" && (tk.val == "]" || tk.val == ")" || tk.val == "}") {
					depth--
				}
				p.next()
				end = p.peek().pos
			}
			vars = append(vars, SBinder{t.val, strings.TrimSpace(p.src[start:end])})
			if p.isOp(",") {
				p.next()
				continue
			}
			break
		}
		if err := p.expect("::"); err != nil {
			return nil, err
		}
		body, err := p.expr()
		if err != nil {
			return nil, err
		}
		return &SQuant{fa, vars, body}, nil
	}
	return p.impl()
}

func (p *sparser) impl() (SExpr, error) {
	l, err := p.or()
	if err != nil {
		return nil, err
	}
	if p.isOp("==>") {
		p.next()
		// right assoc; allow quantifier on the right
		r, err := p.expr()
		if err != nil {
			return nil, err
		}
		return &SBin{"==>", l, r}, nil
	}
	if p.isOp("<==>") {
		p.next()
		r, err := p.or()
		if err != nil {
			return nil, err
		}
		return &SBin{"<==>", l, r}, nil
	}
	return l, nil
}

func (p *sparser) or() (SExpr, error) {
	l, err := p.and()
	if err != nil {
		return nil, err
	}
	for p.isOp("||") {
		p.next()
		r, err := p.and()
		if err != nil {
			return nil, err
		}
		l = &SBin{"||", l, r}
	}
	return l, nil
}

func (p *sparser) and() (SExpr, error) {
	l, err := p.cmp()
	if err != nil {
		return nil, err
	}
	for p.isOp("&&") {
		p.next()
		r, err := p.cmp()
		if err != nil {
			return nil, err
		}
		l = &SBin{"&&", l, r}
	}
	return l, nil
}

func (p *sparser) cmp() (SExpr, error) {
	if p.isIdent("forall") || p.isIdent("exists") {
		return p.expr()
	}
	l, err := p.add()
	if err != nil {
		return nil, err
	}
	t := p.peek()
	if t.kind == "op" {
		switch t.val {
		case "==", "!=", "<", "<=", ">", ">=":
			p.next()
			r, err := p.add()
			if err != nil {
				return nil, err
			}
			return &SBin{t.val, l, r}, nil
		}
	}
	if t.kind == "ident" && (t.val == "in" || t.val == "notin") {
		p.next()
		r, err := p.add()
		if err != nil {
			return nil, err
		}
		if t.val == "notin" {
			return &SUn{"!", &SBin{"in", l, r}}, nil
		}
		return &SBin{"in", l, r}, nil
	}
	return l, nil
}

func (p *sparser) add() (SExpr, error) {
	l, err := p.mul()
	if err != nil {
		return nil, err
	}
	for p.isOp("+") || p.isOp("-") {
		op := p.next().val
		r, err := p.mul()
		if err != nil {
			return nil, err
		}
		l = &SBin{op, l, r}
	}
	return l, nil
}

func (p *sparser) mul() (SExpr, error) {
	l, err := p.unary()
	if err != nil {
		return nil, err
	}
	for p.isOp("*") || p.isOp("/") || p.isOp("%") {
		op := p.next().val
		r, err := p.unary()
		if err != nil {
			return nil, err
		}
		l = &SBin{op, l, r}
	}
	return l, nil
}

func (p *sparser) unary() (SExpr, error) {
	if p.isOp("!") || p.isOp("-") {
		op := p.next().val
		x, err := p.unary()
		if err != nil {
			return nil, err
		}
		return &SUn{op, x}, nil
	}
	return p.postfix()
}

func (p *sparser) postfix() (SExpr, error) {
	x, err := p.primary()
	if err != nil {
		return nil, err
	}
	for {
		switch {
		case p.isOp("."):
			p.next()
			t := p.next()
			if t.kind != "ident" {
				return nil, fmt.Errorf("expected field name at %d in %q", t.pos, p.src)
			}
			// qualified identifier (pkg.Name) or method-like call x.f(args)
			if p.isOp("(") {
				// method-style call: treated as call "X.f" with receiver first
				p.next()
				args, err := p.args()
				if err != nil {
					return nil, err
				}
				x = &SCall{Fn: "." + t.val, Args: append([]SExpr{x}, args...)}
				continue
			}
			x = &SField{x, t.val}
		case p.isOp("["):
			p.next()
			i, err := p.expr()
			if err != nil {
				return nil, err
			}
			if err := p.expect("]"); err != nil {
				return nil, err
			}
			x = &SIndex{x, i}
		default:
			return x, nil
		}
	}
}

func (p *sparser) args() ([]SExpr, error) {
	var args []SExpr
	if p.isOp(")") {
		p.next()
		return args, nil
	}
	for {
		a, err := p.expr()
		if err != nil {
			return nil, err
		}
		args = append(args, a)
		if p.isOp(",") {
			p.next()
			continue
		}
		if err := p.expect(")"); err != nil {
			return nil, err
		}
		return args, nil
	}
}

func (p *sparser) primary() (SExpr, error) {
	t := p.next()
	switch t.kind {
	case "int":
		return &SLit{"int", t.val}, nil
	case "float":
		return &SLit{"float", t.val}, nil
	case "string":
		return &SLit{"string", t.val}, nil
	case "ident":
		switch t.val {
		case "true", "false":
			return &SLit{"bool", t.val}, nil
		case "nil":
			return &SLit{"nil", "nil"}, nil
		}
		if p.isOp("(") {
			p.next()
			if t.val == "calls" || t.val == "lastret" || t.val == "lastarg" || t.val == "countret" || t.val == "firstret" || t.val == "passed" || t.val == "alltrue" {
				// first argument is a function name, taken as raw text: (*T).M, Iface.M, f
				depth := 0
				start := p.peek().pos
				end := start
				for {
					tk := p.peek()
					if tk.kind == "eof" {
						return nil, fmt.Errorf("unterminated %s( in %q", t.val, p.src)
					}
					if depth == 0 && tk.kind == "op" && (tk.val == "," || tk.val == ")") {
						break
					}
					if tk.kind == "op" && tk.val == "(" {
						depth++
					}
					if tk.kind == "op" && tk.val == ")" {
						depth--
					}
					p.next()
					end = p.peek().pos
				}
				name := strings.TrimSpace(p.src[start:end])
				args := []SExpr{&SIdent{name}}
				if p.isOp(",") {
					p.next()
					rest, err := p.args()
					if err != nil {
						return nil, err
					}
					args = append(args, rest...)
				} else {
					p.next() // ")"
				}
				return &SCall{Fn: t.val, Args: args}, nil
			}
			args, err := p.args()
			if err != nil {
				return nil, err
			}
			return &SCall{Fn: t.val, Args: args}, nil
		}
		return &SIdent{t.val}, nil
	case "op":
		if t.val == "(" {
			e, err := p.expr()
			if err != nil {
				return nil, err
			}
			if err := p.expect(")"); err != nil {
				return nil, err
			}
			return e, nil
		}
	}
	return nil, fmt.Errorf("unexpected %q at %d in %q", t.val, t.pos, p.src)
}

package main

import (
	"go/token"
	"go/types"
	"sort"
	"strings"

	"golang.org/x/tools/go/ssa"
)

// ModSet is a set of component families possibly written by a piece of code.
type ModSet struct {
	Top  bool
	Fams map[string]bool
}

func newModSet() *ModSet { return &ModSet{Fams: map[string]bool{}} }

func (m *ModSet) add(f string) { m.Fams[f] = true }
func (m *ModSet) union(o *ModSet) bool {
	ch := false
	if o.Top && !m.Top {
		m.Top = true
		ch = true
	}
	for f := range o.Fams {
		if strings.HasPrefix(f, "L:") {
			continue // locals of another frame
		}
		if !m.Fams[f] {
			m.Fams[f] = true
			ch = true
		}
	}
	return ch
}
func (m *ModSet) list() []string {
	var l []string
	for f := range m.Fams {
		l = append(l, f)
	}
	sort.Strings(l)
	return l
}

type ModAnalysis struct {
	w      *World
	cs     *Contracts
	fn     map[*ssa.Function]*ModSet
	impls  map[string][]*ssa.Function // "IfaceName.Method" cache
	e      *Enc // for name mangling only
	localFn map[*ssa.Alloc]*ssa.Function
	acc     map[*ssa.Function]map[string]bool // structs whose fields a function (transitively) accesses; "*" = anything
	summary bool // computing function summaries (as opposed to loop mod-sets)
	why     map[*ssa.Function]map[string]bool
}

func structFam(e *Enc, st types.Type, idx int) string {
	u := st.Underlying().(*types.Struct)
	return "F:" + e.structName(st) + "." + u.Field(idx).Name()
}

func newModAnalysis(w *World, cs *Contracts) *ModAnalysis {
	ma := &ModAnalysis{w: w, cs: cs, fn: map[*ssa.Function]*ModSet{}, impls: map[string][]*ssa.Function{}, localFn: map[*ssa.Alloc]*ssa.Function{}}
	ma.e = &Enc{w: w, cs: cs, hdrSeen: map[string]bool{}, comps: map[string]*Comp{}, dtSeen: map[string]bool{}, typeIDs: map[string]int{}, strConsts: map[string]string{}, assumptions: map[string]bool{}}
	// all in-module functions with bodies
	var fns []*ssa.Function
	seen := map[*ssa.Function]bool{}
	var addFn func(f *ssa.Function)
	addFn = func(f *ssa.Function) {
		if seen[f] || f.Blocks == nil {
			return
		}
		seen[f] = true
		fns = append(fns, f)
		for _, a := range f.AnonFuncs {
			addFn(a)
		}
	}
	for _, f := range w.Funcs {
		addFn(f)
	}
	for _, f := range fns {
		ma.fn[f] = newModSet()
		ma.scanLocalFns(f)
	}
	// fixpoint
	ma.summary = true
	defer func() { ma.summary = false }()
	for iter := 0; iter < 50; iter++ {
		changed := false
		for _, f := range fns {
			ms := ma.fn[f]
			for _, b := range f.Blocks {
				for _, ins := range b.Instrs {
					if ma.instrMods(f, ins, ms) {
						changed = true
					}
				}
			}
		}
		if !changed {
			break
		}
	}
	ma.computeAccess(fns)
	// ghosts that abstract real state: a function writing the tracked state modifies the ghost
	for _, f := range fns {
		ms := ma.fn[f]
		for g, pats := range cs.Tracks {
			if ms.Fams["G:"+g] {
				continue
			}
			if ms.Top || famsMatch(ms, pats) {
				ms.add("G:" + g)
			}
		}
	}
	return ma
}

func famsMatch(ms *ModSet, pats []string) bool {
	for f := range ms.Fams {
		for _, p := range pats {
			if strings.HasPrefix(f, "F:"+sanitize(p)+".") || f == "M:"+p || f == "S:"+p {
				return true
			}
		}
	}
	return false
}

// scanLocalFns records locals that hold exactly one closure value.
func (ma *ModAnalysis) scanLocalFns(f *ssa.Function) {
	stores := map[*ssa.Alloc][]ssa.Value{}
	for _, b := range f.Blocks {
		for _, ins := range b.Instrs {
			if s, ok := ins.(*ssa.Store); ok {
				if a, ok := s.Addr.(*ssa.Alloc); ok {
					stores[a] = append(stores[a], s.Val)
				}
			}
		}
	}
	for a, vs := range stores {
		if len(vs) == 1 {
			if mc, ok := vs[0].(*ssa.MakeClosure); ok {
				ma.localFn[a] = mc.Fn.(*ssa.Function)
			} else if fn, ok := vs[0].(*ssa.Function); ok {
				ma.localFn[a] = fn
			}
		}
	}
}

func (ma *ModAnalysis) of(f *ssa.Function) *ModSet {
	if ms, ok := ma.fn[f]; ok {
		return ms
	}
	return nil
}

func (ma *ModAnalysis) addrFam(addr ssa.Value, ms *ModSet) bool {
	before := len(ms.Fams)
	switch a := addr.(type) {
	case *ssa.FieldAddr:
		if al, ok := a.X.(*ssa.Alloc); ok && ma.summary && al.Heap {
			// initialising a freshly allocated object is not a write to pre-existing state
			return false
		}
		if fa, ok := a.X.(*ssa.FieldAddr); ok && ma.summary {
			if al, ok := fa.X.(*ssa.Alloc); ok && al.Heap {
				return false
			}
		}
		st := a.X.Type().Underlying().(*types.Pointer).Elem()
		ft := st.Underlying().(*types.Struct).Field(a.Field).Type()
		if isObjStruct(ft) {
			ma.structFams(ft, ms)
		} else {
			ms.add(structFam(ma.e, st, a.Field))
		}
	case *ssa.IndexAddr:
		if al, ok := a.X.(*ssa.Alloc); ok && ma.summary {
			_ = al
			return false
		}
		var elem types.Type
		switch t := a.X.Type().Underlying().(type) {
		case *types.Slice:
			elem = t.Elem()
		case *types.Pointer:
			if arr, ok := t.Elem().Underlying().(*types.Array); ok {
				elem = arr.Elem()
			}
		}
		if elem != nil {
			if isObjStruct(elem) {
				ma.structFams(elem, ms)
			}
			ms.add("S:" + typeStr(elem))
		}
	case *ssa.Alloc:
		if ma.summary {
			// a store directly into a variable/object allocated by this very function is not a
			// write to state that existed before the call
			return false
		}
		t := a.Type().Underlying().(*types.Pointer).Elem()
		if isObjStruct(t) {
			// fresh object: not a pre-existing location; still record fields for loop havoc
			ma.structFams(t, ms)
		} else if _, isArr := t.Underlying().(*types.Array); isArr {
			ms.add("S:" + typeStr(t.Underlying().(*types.Array).Elem()))
		} else if a.Heap {
			ms.add("C:" + typeStr(t))
		} else {
			ms.add("L:" + a.Name() + "@" + a.Parent().String())
		}
	case *ssa.Global:
		ms.add("G:" + "G_" + sanitize(shortPkg(a.Pkg.Pkg.Path())) + "_" + sanitize(a.Name()))
	default:
		// pointer value of unknown origin
		if p, ok := addr.Type().Underlying().(*types.Pointer); ok {
			t := p.Elem()
			if isObjStruct(t) {
				ma.structFams(t, ms)
			} else {
				ms.add("C:" + typeStr(t))
			}
		}
	}
	return len(ms.Fams) != before
}

func (ma *ModAnalysis) structFams(t types.Type, ms *ModSet) {
	u, ok := t.Underlying().(*types.Struct)
	if !ok {
		return
	}
	for i := 0; i < u.NumFields(); i++ {
		ft := u.Field(i).Type()
		if isObjStruct(ft) {
			ma.structFams(ft, ms)
		} else {
			ms.add(structFam(ma.e, t, i))
		}
	}
}

func (ma *ModAnalysis) instrMods(f *ssa.Function, ins ssa.Instruction, ms *ModSet) bool {
	ch := false
	switch x := ins.(type) {
	case *ssa.Store:
		ch = ma.addrFam(x.Addr, ms)
	case *ssa.UnOp:
		if x.Op == token.ARROW && !ms.Fams["G:recv"] {
			ms.add("G:recv")
			ms.add("G:chan")
			ch = true
		}
	case *ssa.Send, *ssa.Select:
		if !ms.Fams["G:chan"] {
			ms.add("G:chan")
			ch = true
		}
	case *ssa.MapUpdate:
		k := "M:" + typeStr(x.Map.Type().Underlying().(*types.Map))
		if !ms.Fams[k] {
			ms.add(k)
			ch = true
		}
	case *ssa.Call:
		ch = ma.callMods(f, &x.Call, ms)
	case *ssa.Defer:
		ch = ma.callMods(f, &x.Call, ms)
	case *ssa.MakeMap, *ssa.MakeSlice, *ssa.MakeChan, *ssa.MakeClosure, *ssa.MakeInterface:
		if !ms.Fams["alloc"] {
			ms.add("alloc")
			ch = true
		}
	case *ssa.Alloc:
		if !ms.Fams["alloc"] {
			ms.add("alloc")
			ch = true
		}
	}
	return ch
}

func (ma *ModAnalysis) callMods(f *ssa.Function, c *ssa.CallCommon, ms *ModSet) bool {
	before := len(ms.Fams)
	beforeTop := ms.Top
	addF := func(k string) { ms.add(k) }
	if b, ok := c.Value.(*ssa.Builtin); ok {
		switch b.Name() {
		case "delete":
			addF("M:" + typeStr(c.Args[0].Type().Underlying().(*types.Map)))
		case "append":
			if sl, ok := c.Args[0].Type().Underlying().(*types.Slice); ok {
				addF("S:" + typeStr(sl.Elem()))
				addF("alloc")
			}
		case "copy":
			if sl, ok := c.Args[0].Type().Underlying().(*types.Slice); ok {
				addF("S:" + typeStr(sl.Elem()))
			}
		case "clear":
			switch t := c.Args[0].Type().Underlying().(type) {
			case *types.Map:
				addF("M:" + typeStr(t))
			case *types.Slice:
				addF("S:" + typeStr(t.Elem()))
			}
		}
		return len(ms.Fams) != before
	}
	if c.IsInvoke() {
		// interface method
		it := c.Value.Type()
		named, _ := it.(*types.Named)
		if named != nil {
			addF("G:calls:" + named.Obj().Name() + "." + c.Method.Name())
		} else {
			addF("G:calls:" + typeStr(it) + "." + c.Method.Name())
		}
		if named != nil && named.Obj().Pkg() != nil && inModule(named.Obj().Pkg().Path()) {
			for _, impl := range ma.implsOf(named, c.Method.Name()) {
				if o := ma.fn[impl]; o != nil {
					ms.union(o)
				}
			}
			if fc := ma.cs.Ifaces[named.Obj().Name()+"."+c.Method.Name()]; fc != nil {
				ma.contractGhostMods(fc, ms)
			}
		}
		// external interfaces: assumed not to write module state
		return len(ms.Fams) != before || ms.Top != beforeTop
	}
	if callee := c.StaticCallee(); callee != nil {
		addF("G:calls:" + shortFuncName(callee))
		switch callee.String() {
		case "(*sync.Mutex).Lock", "(*sync.RWMutex).Lock", "(*sync.RWMutex).RLock", "(*sync.Cond).Wait":
			// which monitor? (the mutex is a field of some struct)
			if fa, ok := c.Args[0].(*ssa.FieldAddr); ok {
				st := fa.X.Type().Underlying().(*types.Pointer).Elem()
				fname := st.Underlying().(*types.Struct).Field(fa.Field).Name()
				if callee.Name() == "Wait" {
					addF("MONITORCOND:" + ma.e.structName(st) + "." + fname)
				} else {
					addF("MONITOR:" + ma.e.structName(st) + "." + fname)
				}
				addF("G:held")
				if callee.Name() == "Wait" {
					addF("G:ctxdone")
				}
				return len(ms.Fams) != before || ms.Top != beforeTop
			}
		}
		ma.calleeMods(callee, ms)
		if _, inMod := ma.fn[callee]; inMod {
			ma.funcArgMods(f, c, ms)
		}
		return len(ms.Fams) != before || ms.Top != beforeTop
	}
	// dynamic call through a func value
	if fn := ma.resolveDyn(c.Value); fn != nil {
		addF("G:calls:" + shortFuncName(fn))
		ma.calleeMods(fn, ms)
		ma.funcArgMods(f, c, ms)
		return len(ms.Fams) != before || ms.Top != beforeTop
	}
	if fns := ma.returnedClosures(c.Value); len(fns) > 0 {
		for _, fn := range fns {
			ma.calleeMods(fn, ms)
		}
		ma.funcArgMods(f, c, ms)
		return len(ms.Fams) != before || ms.Top != beforeTop
	}
	addF("G:calls:dyn:" + dynName(c.Value))
	if target := ma.cs.DynBind[dynName(c.Value)]; target != "" {
		if fn := ma.w.Funcs[target]; fn != nil {
			ma.calleeMods(fn, ms)
			return len(ms.Fams) != before || ms.Top != beforeTop
		}
	}
	if ma.dynPure(f, c.Value) || ma.isFuncParam(f, c.Value) {
		// calls through a function-typed parameter are accounted for at the call sites of f,
		// which add the effects of the function values they pass (funcArgMods)
		return len(ms.Fams) != before
	}
	ma.noteTop(f, "dynamic call of "+dynName(c.Value))
	ms.Top = true
	return ms.Top != beforeTop
}

func (ma *ModAnalysis) noteTop(f *ssa.Function, why string) {
	if ma.why == nil {
		ma.why = map[*ssa.Function]map[string]bool{}
	}
	if ma.why[f] == nil {
		ma.why[f] = map[string]bool{}
	}
	ma.why[f][why] = true
}

// isFuncParam: v is (a load of the local copy of) a parameter of f.
func (ma *ModAnalysis) isFuncParam(f *ssa.Function, v ssa.Value) bool {
	switch x := v.(type) {
	case *ssa.Parameter:
		return true
	case *ssa.UnOp:
		if a, ok := x.X.(*ssa.Alloc); ok {
			// the alloc is the local copy of a parameter: its only stores store a Parameter
			refs := a.Referrers()
			if refs == nil {
				return false
			}
			n := 0
			for _, r := range *refs {
				if st, ok := r.(*ssa.Store); ok && st.Addr == ssa.Value(a) {
					if _, isP := st.Val.(*ssa.Parameter); !isP {
						return false
					}
					n++
				}
			}
			return n == 1
		}
	}
	return false
}

// returnedClosures: v is the result of calling an in-module function that returns closures
// (iterator constructors such as rpcs, split, All): the closures it may return.
func (ma *ModAnalysis) returnedClosures(v ssa.Value) []*ssa.Function {
	var call *ssa.Call
	v = unwrapFn(v)
	switch x := v.(type) {
	case *ssa.Call:
		call = x
	case *ssa.UnOp:
		if a, ok := x.X.(*ssa.Alloc); ok {
			// local holding the result of a single call
			refs := a.Referrers()
			if refs != nil {
				var stored []ssa.Value
				for _, r := range *refs {
					if st, ok := r.(*ssa.Store); ok && st.Addr == ssa.Value(a) {
						stored = append(stored, st.Val)
					}
				}
				if len(stored) == 1 {
					if cc, ok := stored[0].(*ssa.Call); ok {
						call = cc
					}
				}
			}
		}
	}
	if call == nil {
		return nil
	}
	callee := call.Call.StaticCallee()
	if callee == nil || callee.Blocks == nil {
		return nil
	}
	if _, known := ma.fn[callee]; !known {
		return nil
	}
	var out []*ssa.Function
	for _, b := range callee.Blocks {
		for _, ins := range b.Instrs {
			ret, ok := ins.(*ssa.Return)
			if !ok {
				continue
			}
			for _, rv := range ret.Results {
				switch y := unwrapFn(rv).(type) {
				case *ssa.MakeClosure:
					out = append(out, y.Fn.(*ssa.Function))
				case *ssa.Function:
					out = append(out, y)
				case *ssa.UnOp:
					// return of the (nameless) result local: look at what was stored into it
					if a, ok := y.X.(*ssa.Alloc); ok {
						if refs := a.Referrers(); refs != nil {
							for _, r := range *refs {
								if st, ok := r.(*ssa.Store); ok && st.Addr == ssa.Value(a) {
									if mc, ok := unwrapFn(st.Val).(*ssa.MakeClosure); ok {
										out = append(out, mc.Fn.(*ssa.Function))
									}
								}
							}
						}
					}
				}
			}
		}
	}
	return out
}

// funcArgMods: function values passed as arguments may be called by the callee.
func (ma *ModAnalysis) funcArgMods(f *ssa.Function, c *ssa.CallCommon, ms *ModSet) {
	for _, a := range c.Args {
		if _, ok := a.Type().Underlying().(*types.Signature); !ok {
			continue
		}
		if cst, ok := a.(*ssa.Const); ok && cst.Value == nil {
			continue
		}
		if fn := ma.resolveDyn(a); fn != nil {
			ma.calleeMods(fn, ms)
			continue
		}
		if ma.dynPure(f, a) || ma.isFuncParam(f, a) {
			continue
		}
		if ma.boundMethod(a, ms) {
			continue
		}
		ma.noteTop(f, "function value argument "+dynName(a))
		ms.Top = true
	}
}

// boundMethod: a method value x.M of an in-module type (closure over a synthetic bound wrapper).
func (ma *ModAnalysis) boundMethod(v ssa.Value, ms *ModSet) bool {
	mc, ok := v.(*ssa.MakeClosure)
	if !ok {
		if u, ok2 := v.(*ssa.UnOp); ok2 {
			if a, ok3 := u.X.(*ssa.Alloc); ok3 {
				if refs := a.Referrers(); refs != nil {
					for _, r := range *refs {
						if st, ok := r.(*ssa.Store); ok && st.Addr == ssa.Value(a) {
							if m, ok := st.Val.(*ssa.MakeClosure); ok {
								mc = m
							}
						}
					}
				}
			}
		}
		if mc == nil {
			return false
		}
	}
	fn, _ := mc.Fn.(*ssa.Function)
	if fn == nil || fn.Synthetic == "" {
		return false
	}
	// bound method wrapper: its body calls the real method
	for _, b := range fn.Blocks {
		for _, ins := range b.Instrs {
			if call, ok := ins.(*ssa.Call); ok {
				if callee := call.Call.StaticCallee(); callee != nil {
					ma.calleeMods(callee, ms)
					return true
				}
			}
		}
	}
	return false
}

func (ma *ModAnalysis) calleeMods(callee *ssa.Function, ms *ModSet) {
	full := callee.String()
	switch full {
	case "time.Now", "time.Since":
		ms.add("G:clock")
		return
	case "(*sync.Mutex).Lock", "(*sync.RWMutex).Lock", "(*sync.RWMutex).RLock":
		ms.add("G:held")
		ms.add("MONITOR")
		return
	case "(*sync.Mutex).Unlock", "(*sync.RWMutex).Unlock", "(*sync.RWMutex).RUnlock":
		ms.add("G:held")
		return
	case "(*sync.Cond).Wait":
		ms.add("MONITOR")
		ms.add("G:ctxdone")
		return
	case "(*sync.Cond).Signal", "(*sync.Cond).Broadcast":
		ms.add("G:notified")
		ms.add("G:calls:Cond." + callee.Name())
		return
	}
	fc := ma.cs.Funcs[shortFuncName(callee)]
	if fc != nil && fc.HasMod && !fc.NoFrame {
		// the callee is verified against (or trusted with) its modifies clause: callers rely on it
		if len(fc.Modifies) == 0 {
			return
		}
		if o := ma.fn[callee]; o != nil {
			top := ms.Top
			ms.union(o)
			ms.Top = top
		}
		ma.contractGhostMods(fc, ms)
		return
	}
	if o := ma.fn[callee]; o != nil {
		ms.union(o)
	}
	if fc != nil {
		ma.contractGhostMods(fc, ms)
	}
}

func (ma *ModAnalysis) contractGhostMods(fc *FuncContract, ms *ModSet) {
	for _, m := range fc.Modifies {
		if id, ok := m.(*SIdent); ok {
			if _, isG := ma.cs.Ghosts[id.Name]; isG {
				ms.add("G:" + id.Name)
			}
		}
	}
}

func unwrapFn(v ssa.Value) ssa.Value {
	for {
		switch x := v.(type) {
		case *ssa.ChangeType:
			v = x.X
		default:
			return v
		}
	}
}

func (ma *ModAnalysis) resolveDyn(v ssa.Value) *ssa.Function {
	v = unwrapFn(v)
	switch x := v.(type) {
	case *ssa.MakeClosure:
		return x.Fn.(*ssa.Function)
	case *ssa.Function:
		return x
	case *ssa.UnOp:
		if a, ok := x.X.(*ssa.Alloc); ok {
			return ma.localFn[a]
		}
		if fv, ok := x.X.(*ssa.FreeVar); ok {
			return ma.resolveFreeVar(fv, 0)
		}
	}
	return nil
}

// resolveFreeVar: a captured variable that holds exactly one closure in the enclosing function.
func (ma *ModAnalysis) resolveFreeVar(fv *ssa.FreeVar, depth int) *ssa.Function {
	if depth > 4 {
		return nil
	}
	f := fv.Parent()
	parent := f.Parent()
	if parent == nil {
		return nil
	}
	idx := -1
	for i, x := range f.FreeVars {
		if x == fv {
			idx = i
		}
	}
	if idx < 0 {
		return nil
	}
	var res *ssa.Function
	for _, b := range parent.Blocks {
		for _, ins := range b.Instrs {
			mc, ok := ins.(*ssa.MakeClosure)
			if !ok || mc.Fn != f || idx >= len(mc.Bindings) {
				continue
			}
			switch bv := mc.Bindings[idx].(type) {
			case *ssa.Alloc:
				res = ma.localFn[bv]
			case *ssa.FreeVar:
				res = ma.resolveFreeVar(bv, depth+1)
			}
		}
	}
	return res
}

// dynPure: the called func value is declared pure/external by the enclosing function's contract
// (by the name of the field or variable it is read from), or is a parameter/field of
// non-module function type supplied by the user.
func (ma *ModAnalysis) dynPure(f *ssa.Function, v ssa.Value) bool {
	name := dynName(v)
	root := f
	for root.Parent() != nil {
		root = root.Parent()
	}
	for _, fn := range []*ssa.Function{f, root} {
		if fc := ma.cs.Funcs[shortFuncName(fn)]; fc != nil {
			for _, d := range fc.DynPure {
				if d == name || d == "*" {
					return true
				}
			}
		}
	}
	if fc := ma.cs.Funcs["*"]; fc != nil {
		for _, d := range fc.DynPure {
			if d == name {
				return true
			}
		}
	}
	return false
}

func dynName(v ssa.Value) string {
	switch x := v.(type) {
	case *ssa.UnOp:
		switch a := x.X.(type) {
		case *ssa.FieldAddr:
			st := a.X.Type().Underlying().(*types.Pointer).Elem().Underlying().(*types.Struct)
			return st.Field(a.Field).Name()
		case *ssa.Alloc:
			return a.Comment
		case *ssa.FreeVar:
			return a.Name()
		}
	case *ssa.Parameter:
		return x.Name()
	case *ssa.Field:
		st := x.X.Type().Underlying().(*types.Struct)
		return st.Field(x.Field).Name()
	case *ssa.Call:
		if c := x.Call.StaticCallee(); c != nil {
			return "ret:" + c.Name()
		}
		if x.Call.IsInvoke() {
			return "ret:" + x.Call.Method.Name()
		}
	case *ssa.Extract:
		return dynName(x.Tuple)
	}
	return v.Name()
}

func (ma *ModAnalysis) implsOf(iface *types.Named, method string) []*ssa.Function {
	key := iface.Obj().Name() + "." + method
	if l, ok := ma.impls[key]; ok {
		return l
	}
	var out []*ssa.Function
	it, _ := iface.Underlying().(*types.Interface)
	if it != nil {
		for _, f := range ma.w.Funcs {
			if f.Name() != method || f.Signature.Recv() == nil || f.Blocks == nil {
				continue
			}
			rt := f.Signature.Recv().Type()
			if types.Implements(rt, it) {
				out = append(out, f)
			} else if _, isPtr := rt.(*types.Pointer); !isPtr && types.Implements(types.NewPointer(rt), it) {
				out = append(out, f)
			}
		}
	}
	sort.Slice(out, func(i, j int) bool { return out[i].String() < out[j].String() })
	ma.impls[key] = out
	return out
}

// computeAccess: which struct types' fields each function touches (reads or writes), transitively.
// Used for the encapsulation argument of "owns" declarations: a callee that never accesses a
// field of S cannot reach (hence cannot modify) objects that are reachable only through S.
func (ma *ModAnalysis) computeAccess(fns []*ssa.Function) {
	ma.acc = map[*ssa.Function]map[string]bool{}
	for _, f := range fns {
		ma.acc[f] = map[string]bool{}
	}
	addAll := func(dst, src map[string]bool) bool {
		ch := false
		for k := range src {
			if !dst[k] {
				dst[k] = true
				ch = true
			}
		}
		return ch
	}
	for iter := 0; iter < 60; iter++ {
		changed := false
		for _, f := range fns {
			a := ma.acc[f]
			for _, b := range f.Blocks {
				for _, ins := range b.Instrs {
					switch x := ins.(type) {
					case *ssa.FieldAddr:
						st := x.X.Type().Underlying().(*types.Pointer).Elem()
						n := ma.e.structName(st)
						if !a[n] {
							a[n] = true
							changed = true
						}
						if u, ok := st.Underlying().(*types.Struct); ok {
							if k := n + "." + u.Field(x.Field).Name(); !a[k] {
								a[k] = true
								changed = true
							}
						}
					case *ssa.Field:
						n := ma.e.structName(x.X.Type())
						if !a[n] {
							a[n] = true
							changed = true
						}
						if u, ok := x.X.Type().Underlying().(*types.Struct); ok {
							if k := n + "." + u.Field(x.Field).Name(); !a[k] {
								a[k] = true
								changed = true
							}
						}
					case *ssa.UnOp:
						// whole-struct load/copy (*p): every field is read
						if x.Op == token.MUL {
							if pt, ok := x.X.Type().Underlying().(*types.Pointer); ok {
								if _, isSt := pt.Elem().Underlying().(*types.Struct); isSt {
									if k := ma.e.structName(pt.Elem()) + ".*"; !a[k] {
										a[k] = true
										changed = true
									}
								}
							}
						}
					}
					var c *ssa.CallCommon
					switch x := ins.(type) {
					case *ssa.Call:
						c = &x.Call
					case *ssa.Defer:
						c = &x.Call
					case *ssa.Go:
						c = &x.Call
					case *ssa.MakeClosure:
						if cf, ok := x.Fn.(*ssa.Function); ok {
							if o := ma.acc[cf]; o != nil && addAll(a, o) {
								changed = true
							}
						}
					}
					if c == nil {
						continue
					}
					if _, ok := c.Value.(*ssa.Builtin); ok {
						continue
					}
					if c.IsInvoke() {
						named, _ := c.Value.Type().(*types.Named)
						if named != nil && named.Obj().Pkg() != nil && inModule(named.Obj().Pkg().Path()) {
							for _, impl := range ma.implsOf(named, c.Method.Name()) {
								if o := ma.acc[impl]; o != nil && addAll(a, o) {
									changed = true
								}
							}
						}
						continue
					}
					callee := c.StaticCallee()
					if callee == nil {
						callee = ma.resolveDyn(c.Value)
					}
					if callee != nil {
						if o := ma.acc[callee]; o != nil && addAll(a, o) {
							changed = true
						}
						continue
					}
					if fnsR := ma.returnedClosures(c.Value); len(fnsR) > 0 {
						for _, cf := range fnsR {
							if o := ma.acc[cf]; o != nil && addAll(a, o) {
								changed = true
							}
						}
						continue
					}
					if target := ma.cs.DynBind[dynName(c.Value)]; target != "" {
						if fn := ma.w.Funcs[target]; fn != nil {
							if o := ma.acc[fn]; o != nil && addAll(a, o) {
								changed = true
							}
						}
						continue
					}
					if ma.dynPure(f, c.Value) || ma.isFuncParam(f, c.Value) {
						continue
					}
					if !a["*"] {
						a["*"] = true
						changed = true
					}
				}
			}
		}
		if !changed {
			break
		}
	}
}

// accessesField reports whether fn (transitively) touches field f of the struct named st.
func (ma *ModAnalysis) accessesField(fn *ssa.Function, st, f string) bool {
	a := ma.acc[fn]
	if a == nil {
		return true
	}
	return a["*"] || a[st+"."+f] || a[st+".*"]
}

// accesses reports whether fn (transitively) touches fields of the struct named st.
func (ma *ModAnalysis) accesses(fn *ssa.Function, st string) bool {
	a := ma.acc[fn]
	if a == nil {
		return true
	}
	return a["*"] || a[st]
}

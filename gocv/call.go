package main

import (
	"fmt"
	"go/token"
	"go/types"
	"strings"

	"golang.org/x/tools/go/ssa"
)

// execCall handles every call (also deferred ones). Returns the result value (Tup for multi-results).
func (e *Enc) execCall(fr *Frame, c *ssa.CallCommon, instr ssa.Instruction, cur *pathState) Val {
	pos := instr.Pos()
	var resType types.Type
	if v, ok := instr.(ssa.Value); ok {
		resType = v.Type()
	} else {
		resType = c.Signature().Results()
	}
	if b, ok := c.Value.(*ssa.Builtin); ok {
		return e.execBuiltin(fr, b, c, instr, cur)
	}
	var args []Val
	for _, a := range c.Args {
		args = append(args, e.val(fr, a))
	}
	if c.IsInvoke() {
		recv := e.val(fr, c.Value)
		return e.execInvoke(fr, c, recv, args, resType, pos, cur, instr)
	}
	if callee := c.StaticCallee(); callee != nil {
		var binds []Val
		if mc, ok := c.Value.(*ssa.MakeClosure); ok {
			for _, b := range mc.Bindings {
				binds = append(binds, e.val(fr, b))
			}
		}
		return e.execStatic(fr, callee, args, binds, resType, pos, cur, instr)
	}
	// dynamic call via func value
	fv := e.val(fr, c.Value)
	if fv.Fn != nil {
		return e.execStatic(fr, fv.Fn, args, fv.Binds, resType, pos, cur, instr)
	}
	name := dynName(c.Value)
	if target := e.cs.DynBind[name]; target != "" {
		if fn := e.w.Funcs[target]; fn != nil {
			e.note("dynamic call of " + name + " bound to " + target + " (declared with dynbind; the field is assumed to hold only that function)")
			e.countCall(cur, "dyn:"+name, args)
			ms := e.mods.of(fn)
			if ms == nil {
				ms = newModSet()
				ms.Top = true
			}
			before := cur.st.clone()
			e.havocMods(fr, cur.st, ms, false)
			e.allocMonotone(before, cur.st)
			e.clockMonotone(before, cur.st)
			r := e.freshResult(resType, cur, "dyn_"+sanitize(name))
			e.recordRet(cur, "dyn:"+name, r)
			return r
		}
	}
	if fns := e.mods.returnedClosures(c.Value); len(fns) > 0 || e.mods.isFuncParam(fr.fn, c.Value) {
		// iterator closure returned by an in-module constructor, or a callback parameter:
		// havoc by the summaries of the possible targets and of the function values passed in
		ms := newModSet()
		for _, fn := range fns {
			if o := e.mods.of(fn); o != nil {
				ms.union(o)
				if o.Top {
					ms.Top = true
				}
			}
		}
		e.mods.funcArgMods(fr.fn, c, ms)
		e.callSiteAsserts(fr, "dyn:"+name, args, cur, pos)
		e.countCall(cur, "dyn:"+name, args)
		before := cur.st.clone()
		e.havocMods(fr, cur.st, ms, false)
		e.allocMonotone(before, cur.st)
		e.clockMonotone(before, cur.st)
		r := e.freshResult(resType, cur, "dyn_"+sanitize(name))
		e.recordRet(cur, "dyn:"+name, r)
		return r
	}
	if fv.Ext || e.mods.dynPure(fr.fn, c.Value) {
		e.note("dynamic call of " + name + " treated as external: arbitrary result, no effect on module state")
		e.callSiteAsserts(fr, "dyn:"+name, args, cur, pos)
		e.countCall(cur, "dyn:"+name, args)
		r := e.freshResult(resType, cur, "dyn_"+sanitize(name))
		e.recordRet(cur, "dyn:"+name, r)
		return r
	}
	// unknown function value: havoc everything
	e.note("dynamic call of unknown function value " + name + " in " + fr.name + ": all state havocked")
	ms := newModSet()
	ms.Top = true
	before := cur.st.clone()
	e.havocMods(fr, cur.st, ms, false)
	e.allocMonotone(before, cur.st)
	e.clockMonotone(before, cur.st)
	return e.freshResult(resType, cur, "dyn_"+sanitize(name))
}

func (e *Enc) freshResult(t types.Type, cur *pathState, base string) Val {
	if t == nil {
		return Val{T: "unit", S: "Unit"}
	}
	if tup, ok := t.(*types.Tuple); ok {
		if tup.Len() == 0 {
			return Val{T: "unit", S: "Unit"}
		}
		if tup.Len() == 1 {
			return e.freshVal(base, tup.At(0).Type(), cur)
		}
		var vs []Val
		for i := 0; i < tup.Len(); i++ {
			vs = append(vs, e.freshVal(base, tup.At(i).Type(), cur))
		}
		return Val{Tup: vs, Typ: t}
	}
	return e.freshVal(base, t, cur)
}

// countCall maintains the ghost call counters used by calls(f) in specifications.
func (e *Enc) countCall(cur *pathState, name string, args []Val) {
	c := e.comp("calls_"+sanitize(name), "Int", "ghost", "G:calls:"+name)
	e.set(cur.st, c, "(+ "+e.get(cur.st, c)+" 1)")
	for i, a := range args {
		if a.T == "" || a.S == "" || a.Tup != nil {
			continue
		}
		ac := e.comp(fmt.Sprintf("lastarg%d_%s", i, sanitize(name)), a.S, "ghost", "G:calls:"+name)
		if ac.Sort != a.S {
			continue
		}
		e.set(cur.st, ac, a.T)
		// passed(f, i): the set of all values passed as argument i by direct calls of f (only
		// kept for callbacks, where "some call carried x" is what specifications need)
		if strings.HasPrefix(name, "dyn:") {
			pc := e.comp(fmt.Sprintf("passed%d_%s", i, sanitize(name)), "(Array "+a.S+" Bool)", "ghost", "G:calls:"+name)
			if pc.Sort == "(Array "+a.S+" Bool)" {
				e.set(cur.st, pc, store(e.get(cur.st, pc), a.T, "true"))
			}
		}
	}
}

// recordRet remembers the value(s) returned by the last call of name (lastret(f) in specs).
func (e *Enc) recordRet(cur *pathState, name string, res Val) {
	vals := res.Tup
	if vals == nil {
		if res.T == "" || res.S == "" || res.S == "Unit" {
			return
		}
		vals = []Val{res}
	}
	for i, v := range vals {
		if v.T == "" || v.S == "" {
			continue
		}
		rc := e.comp(fmt.Sprintf("lastret%d_%s", i, sanitize(name)), v.S, "ghost", "G:calls:"+name)
		if rc.Sort != v.S {
			continue
		}
		e.set(cur.st, rc, v.T)
		// firstret(f, i): value returned by the first direct call of f in this activation
		fc1 := e.comp(fmt.Sprintf("firstret%d_%s", i, sanitize(name)), v.S, "ghost", "G:calls:"+name)
		if fc1.Sort == v.S {
			cc := e.comp("calls_"+sanitize(name), "Int", "ghost", "G:calls:"+name)
			e.set(cur.st, fc1, ite(eq(e.get(cur.st, cc), "(+ "+cc.Name+".0 1)"), v.T, e.get(cur.st, fc1)))
		}
		if v.S == "Bool" && i == 0 && strings.HasPrefix(name, "dyn:") {
			// alltrue(f): every direct call of callback f so far returned true
			ac := e.comp("alltrue_"+sanitize(name), "Bool", "ghost", "G:calls:"+name)
			e.set(cur.st, ac, and(e.get(cur.st, ac), v.T))
		}
		if v.S == "Int" && i == 0 {
			// countret(f, x): how many direct calls of f returned x
			cc := e.comp("retcount_"+sanitize(name), "(Array Int Int)", "ghost", "G:calls:"+name)
			e.set(cur.st, cc, store(e.get(cur.st, cc), v.T, "(+ "+sel(e.get(cur.st, cc), v.T)+" 1)"))
		}
	}
}

func (e *Enc) callsComp(name string) *Comp {
	return e.comp("calls_"+sanitize(name), "Int", "ghost", "G:calls:"+name)
}

func (e *Enc) execBuiltin(fr *Frame, b *ssa.Builtin, c *ssa.CallCommon, instr ssa.Instruction, cur *pathState) Val {
	var args []Val
	for _, a := range c.Args {
		args = append(args, e.val(fr, a))
	}
	pos := instr.Pos()
	switch b.Name() {
	case "len":
		switch t := c.Args[0].Type().Underlying().(type) {
		case *types.Slice:
			return Val{T: "(s_len " + args[0].T + ")", S: "Int"}
		case *types.Map:
			_, _, l := e.mapComps(t)
			e.mapLenFact(t, args[0].T, cur.st)
			return Val{T: sel(e.get(cur.st, l), args[0].T), S: "Int"}
		case *types.Basic:
			return Val{T: "(strlen " + args[0].T + ")", S: "Int"}
		case *types.Array:
			return Val{T: fmt.Sprint(t.Len()), S: "Int"}
		case *types.Pointer:
			if a, ok := t.Elem().Underlying().(*types.Array); ok {
				return Val{T: fmt.Sprint(a.Len()), S: "Int"}
			}
		case *types.Chan:
			v := e.freshVal("chanlen", types.Typ[types.Int], cur)
			e.assume("(>= " + v.T + " 0)")
			return v
		}
	case "cap":
		if _, ok := c.Args[0].Type().Underlying().(*types.Slice); ok {
			return Val{T: "(s_cap " + args[0].T + ")", S: "Int"}
		}
		v := e.freshVal("cap", types.Typ[types.Int], cur)
		e.assume("(>= " + v.T + " 0)")
		return v
	case "append":
		return e.execAppend(fr, c, args, cur)
	case "copy":
		sl, ok := c.Args[0].Type().Underlying().(*types.Slice)
		if ok {
			comp := e.sliceComp(sl.Elem())
			// destination contents become arbitrary in the copied range
			n := e.fresh("copyn")
			e.declare(n, "Int")
			var srcLen string
			if args[1].S == "Str" {
				srcLen = "(strlen " + args[1].T + ")"
			} else {
				srcLen = "(s_len " + args[1].T + ")"
			}
			e.assume(fmt.Sprintf("(= %s (imin (s_len %s) %s))", n, args[0].T, srcLen))
			old := e.get(cur.st, comp)
			na := e.fresh("copydst")
			e.declare(na, "(Array Int "+e.sortOf(sl.Elem())+")")
			dst := args[0].T
			e.assume(fmt.Sprintf("(forall ((i Int)) (! (=> (or (< i (s_off %s)) (>= i (+ (s_off %s) %s))) (= (select %s i) (select (select %s (s_arr %s)) i))) :pattern ((select %s i))))", dst, dst, n, na, old, dst, na))
			if args[1].S == "Slice" {
				src := args[1].T
				e.assume(fmt.Sprintf("(forall ((i Int)) (! (=> (and (<= 0 i) (< i %s)) (= (select %s (sidx (s_off %s) i)) (select (select %s (s_arr %s)) (sidx (s_off %s) i)))) :pattern ((select %s (sidx (s_off %s) i)))))", n, na, dst, old, src, src, na, dst))
			}
			e.set(cur.st, comp, ite(eq("(s_arr "+dst+")", "nil"), old, store(old, "(s_arr "+dst+")", na)))
			return Val{T: n, S: "Int"}
		}
	case "delete":
		mt := c.Args[0].Type().Underlying().(*types.Map)
		e.mapDelete(cur.st, mt, args[0].T, args[1].T)
		return Val{T: "unit", S: "Unit"}
	case "clear":
		if mt, ok := c.Args[0].Type().Underlying().(*types.Map); ok {
			d, _, l := e.mapComps(mt)
			dv := e.get(cur.st, d)
			m := args[0].T
			e.set(cur.st, d, ite(eq(m, "nil"), dv, store(dv, m, "((as const (Array "+e.sortOf(mt.Key())+" Bool)) false)")))
			lv := e.get(cur.st, l)
			e.set(cur.st, l, store(lv, m, "0"))
			return Val{T: "unit", S: "Unit"}
		}
	case "min", "max":
		s := e.sortOf(c.Args[0].Type())
		f := "i" + b.Name()
		if s == "Real" {
			f = "r" + b.Name()
		}
		t := args[0].T
		for _, a := range args[1:] {
			t = "(" + f + " " + t + " " + a.T + ")"
		}
		return Val{T: t, S: s}
	case "panic":
		if e.safeMode {
			e.addObl("safe", e.framePrefix(fr)+"panic:"+truncate(e.w.srcLine(pos), 70), cur.reach, "false", pos, "explicit panic reachable")
		}
		return Val{T: "unit", S: "Unit"}
	case "print", "println", "close", "recover":
		if b.Name() == "recover" {
			return Val{T: "nilI", S: "Iface"}
		}
		return Val{T: "unit", S: "Unit"}
	case "ssa:wrapnilchk":
		return args[0]
	case "ssa:deferstack":
		return Val{T: "nil", S: "Ref"}
	}
	e.errorf("%s: unsupported builtin %s", fr.name, b.Name())
	var rt types.Type
	if v, ok := instr.(ssa.Value); ok {
		rt = v.Type()
	}
	return e.freshResult(rt, cur, "builtin")
}

func (e *Enc) execAppend(fr *Frame, c *ssa.CallCommon, args []Val, cur *pathState) Val {
	sl := c.Args[0].Type().Underlying().(*types.Slice)
	es := e.sortOf(sl.Elem())
	comp := e.sliceComp(sl.Elem())
	s := args[0].T
	t := args[1]
	var n string // number of appended elements
	knownN := t.S == "Slice" && t.KLenKnown && t.KLen >= 1 && t.KLen <= 4
	switch {
	case knownN:
		n = fmt.Sprint(t.KLen)
	case t.S == "Str":
		n = "(strlen " + t.T + ")"
	default:
		n = "(s_len " + t.T + ")"
	}
	old := e.get(cur.st, comp)
	inplace := e.defineFresh("app_inplace", "Bool", fmt.Sprintf("(and (<= (+ (s_len %s) %s) (s_cap %s)) (not (= (s_arr %s) nil)))", s, n, s, s))
	noop := "false"
	if !knownN {
		noop = e.defineFresh("app_noop", "Bool", eq(n, "0"))
	}
	// fresh backing array for the reallocation case
	a := e.allocComp()
	fr0 := e.fresh("apparr")
	e.declare(fr0, "Ref")
	afact, anext := allocNew(e.get(cur.st, a), fr0)
	e.assume(and(not(eq(fr0, "nil")), afact))
	e.set(cur.st, a, anext)
	ncap := e.fresh("appcap")
	e.declare(ncap, "Int")
	e.assume(fmt.Sprintf("(>= %s (+ (s_len %s) %s))", ncap, s, n))
	// new contents of the (old or fresh) backing array
	nc := e.fresh("appcont")
	e.declare(nc, "(Array Int "+es+")")
	// result slice and new element component: fresh symbols tied by guarded equalities
	r := e.fresh("appres")
	e.declare(r, "Slice")
	se2 := e.fresh(comp.Name)
	e.declare(se2, comp.Sort)
	live := not(noop)
	e.assume(implies(and(live, inplace), fmt.Sprintf("(and (= %s (mkslice (s_arr %s) (s_off %s) (+ (s_len %s) %s) (s_cap %s))) (= %s (store %s (s_arr %s) %s)))", r, s, s, s, n, s, se2, old, s, nc)))
	e.assume(implies(and(live, not(inplace)), fmt.Sprintf("(and (= %s (mkslice %s 0 (+ (s_len %s) %s) %s)) (= %s (store %s %s %s)))", r, fr0, s, n, ncap, se2, old, fr0, nc)))
	if noop != "false" {
		e.assume(implies(noop, and(eq(r, s), eq(se2, old))))
	}
	// prefix: in place => old array untouched outside the appended region; realloc => copy
	e.assume(fmt.Sprintf("(=> %s (forall ((i Int)) (! (=> (or (< i (+ (s_off %s) (s_len %s))) (>= i (+ (s_off %s) (s_len %s) %s))) (= (select %s i) (select (select %s (s_arr %s)) i))) :pattern ((select %s i)))))", inplace, s, s, s, s, n, nc, old, s, nc))
	e.assume(fmt.Sprintf("(=> (not %s) (forall ((i Int)) (! (=> (and (<= 0 i) (< i (s_len %s))) (= (select %s (sidx 0 i)) (select (select %s (s_arr %s)) (sidx (s_off %s) i)))) :pattern ((select %s (sidx 0 i))) :pattern ((select (select %s (s_arr %s)) (sidx (s_off %s) i))))))", inplace, s, nc, old, s, s, nc, old, s, s))
	// appended region (indexed through the result slice's own offset)
	if t.S == "Slice" {
		if knownN {
			for i := 0; i < t.KLen; i++ {
				e.assume(fmt.Sprintf("(= (select %s (sidx (s_off %s) (+ (s_len %s) %d))) (select (select %s (s_arr %s)) (sidx (s_off %s) %d)))", nc, r, s, i, old, t.T, t.T, i))
			}
		} else {
			e.assume(fmt.Sprintf("(forall ((j Int)) (! (=> (and (<= 0 j) (< j %s)) (= (select %s (sidx (s_off %s) (+ (s_len %s) j))) (select (select %s (s_arr %s)) (sidx (s_off %s) j)))) :pattern ((select (select %s (s_arr %s)) (sidx (s_off %s) j)))))", n, nc, r, s, old, t.T, t.T, old, t.T, t.T))
		}
	}
	cur.st.v[comp.Name] = se2
	return Val{T: r, S: "Slice"}
}

// ---------- static calls ----------

func (e *Enc) execStatic(fr *Frame, callee *ssa.Function, args []Val, binds []Val, resType types.Type, pos token.Pos, cur *pathState, instr ssa.Instruction) Val {
	res := e.execStatic0(fr, callee, args, binds, resType, pos, cur, instr)
	e.recordRet(cur, shortFuncName(callee), res)
	return res
}

func (e *Enc) execStatic0(fr *Frame, callee *ssa.Function, args []Val, binds []Val, resType types.Type, pos token.Pos, cur *pathState, instr ssa.Instruction) Val {
	full := callee.String()
	if callee.Origin() != nil {
		full = callee.Origin().String()
	}
	if v, ok := e.libModel(fr, full, callee, args, resType, pos, cur, instr); ok {
		return v
	}
	name := shortFuncName(callee)
	path := ""
	if callee.Pkg != nil {
		path = callee.Pkg.Pkg.Path()
	} else if callee.Object() != nil && callee.Object().Pkg() != nil {
		path = callee.Object().Pkg().Path()
	} else if callee.Parent() != nil {
		p := callee.Parent()
		for p.Parent() != nil {
			p = p.Parent()
		}
		if p.Pkg != nil {
			path = p.Pkg.Pkg.Path()
		}
	}
	if !inModule(path) {
		// external
		e.callSiteAsserts(fr, callee.Name(), args, cur, pos)
		e.countCall(cur, name, args)
		if e.inertCallee(full) {
			return e.freshResult(resType, cur, "ext")
		}
		e.note("external call " + full + ": arbitrary result, no effect on module state")
		e.escapeArgs(fr, args, cur)
		e.externalClosureArgs(fr, full, e.closureArgsOf(fr, instr, args), cur)
		r := e.freshResult(resType, cur, "ext_"+sanitize(callee.Name()))
		r = markExt(r)
		return r
	}
	e.countCall(cur, name, args)
	fc := e.cs.Funcs[name]
	// call-site assertions of the caller's contract
	e.callSiteAsserts(fr, name, args, cur, pos)
	// safety: nil receiver for pointer-receiver methods
	if e.safeMode && callee.Signature.Recv() != nil && len(args) > 0 && args[0].S == "Ref" {
		if _, isPtr := callee.Signature.Recv().Type().(*types.Pointer); isPtr && !(fc != nil && fc.Inline) && !isNilSafeGetter(callee) && !nilSafeMethod(callee) {
			e.safety(fr, cur, "nilrecv", pos, not(eq(args[0].T, "nil")), instr)
		}
	}
	inline := (fc != nil && fc.Inline) || (fc == nil && e.autoInline(callee))
	if inline && callee.Blocks != nil && fr.depth < maxInlineDepth && !e.onStack(fr, callee) {
		return e.inlineCall(fr, callee, args, binds, resType, cur)
	}
	if fc != nil && (len(fc.Ensures) > 0 || fc.HasMod || len(fc.Requires) > 0 || fc.Trusted || fc.Pure || len(fc.GhostEffects) > 0) {
		closureBinds = binds
		defer func() { closureBinds = nil }()
		return e.contractCall(fr, fc, callee, args, resType, pos, cur, "call:"+name)
	}
	// no contract: havoc by mod-set
	ms := e.mods.of(callee)
	if ms == nil {
		ms = newModSet()
		ms.Top = true
	}
	before := cur.st.clone()
	e.curCallees = []*ssa.Function{callee}
	defer func() { e.curCallees = nil }()
	e.havocMods(fr, cur.st, ms, false)
	e.allocMonotone(before, cur.st)
	e.clockMonotone(before, cur.st)
	return e.freshResult(resType, cur, "res_"+sanitize(callee.Name()))
}

// closureArgsOf: the function values handed to a call, plus (transitively) the closures held in
// function-typed variables they capture (e.g. sort.Slice's less closure calling a local helper).
func (e *Enc) closureArgsOf(fr *Frame, instr ssa.Instruction, args []Val) []Val {
	var out []Val
	seen := map[*ssa.Function]bool{}
	var addMC func(mc *ssa.MakeClosure, depth int)
	addMC = func(mc *ssa.MakeClosure, depth int) {
		if depth > 4 {
			return
		}
		for _, b := range mc.Bindings {
			a, ok := b.(*ssa.Alloc)
			if !ok {
				continue
			}
			if _, isFn := a.Type().(*types.Pointer).Elem().Underlying().(*types.Signature); !isFn {
				continue
			}
			sv, ok := fr.localProv[a]
			if !ok {
				continue
			}
			mc2, ok := sv.(*ssa.MakeClosure)
			if !ok {
				continue
			}
			if v, ok := fr.regs[mc2]; ok && v.Fn != nil && !seen[v.Fn] {
				seen[v.Fn] = true
				out = append(out, v)
				addMC(mc2, depth+1)
			}
		}
	}
	var cc *ssa.CallCommon
	switch x := instr.(type) {
	case *ssa.Call:
		cc = &x.Call
	case *ssa.Defer:
		cc = &x.Call
	case *ssa.Go:
		cc = &x.Call
	}
	for i, a := range args {
		if a.Fn == nil {
			continue
		}
		if !seen[a.Fn] {
			seen[a.Fn] = true
			out = append(out, a)
		}
		if cc != nil && i < len(cc.Args) {
			v := cc.Args[i]
			if ct, ok := v.(*ssa.ChangeType); ok {
				v = ct.X
			}
			if mc, ok := v.(*ssa.MakeClosure); ok {
				addMC(mc, 0)
			}
		}
	}
	return out
}

// externalClosureArgs: an external function that receives function values may call them any
// number of times: havoc what they can write, then assume their contract's preserves clauses
// (reflexive-transitive relations proved of every single call) between the state before and after.
func (e *Enc) externalClosureArgs(fr *Frame, full string, args []Val, cur *pathState) {
	switch full {
	case "context.AfterFunc", "time.AfterFunc":
		// registers a callback that runs later on another goroutine: its effects are concurrent
		// interference (covered by the monitor rule for protected state), not effects of this call
		e.note(full + ": the registered callback runs asynchronously; it is verified as a function of its own, not executed at registration")
		return
	}
	var fns []Val
	ms := newModSet()
	for _, a := range args {
		if a.Fn == nil {
			continue
		}
		fns = append(fns, a)
		if o := e.mods.of(a.Fn); o != nil {
			ms.union(o)
			if o.Top {
				ms.Top = true
			}
		} else {
			ms.Top = true
		}
		e.note("external call " + full + " may invoke the function value " + shortFuncName(a.Fn) + " any number of times: its effects are havocked")
	}
	if len(fns) == 0 {
		return
	}
	pre := cur.st.clone()
	e.curCallees = nil
	for _, a := range fns {
		e.curCallees = append(e.curCallees, a.Fn)
	}
	e.havocMods(fr, cur.st, ms, false)
	e.curCallees = nil
	e.allocMonotone(pre, cur.st)
	e.clockMonotone(pre, cur.st)
	for _, a := range fns {
		fc := e.cs.Funcs[shortFuncName(a.Fn)]
		if fc == nil || len(fc.Preserves) == 0 {
			continue
		}
		env := map[string]SV{}
		for i, fv := range a.Fn.FreeVars {
			if i >= len(a.Binds) {
				break
			}
			t := fv.Type().Underlying().(*types.Pointer).Elem()
			if isObjStruct(t) {
				env[fv.Name()] = SV{T: a.Binds[i].T, Sort: "Ref", Typ: fv.Type()}
			} else {
				env[fv.Name()] = SV{Typ: t, Loc: e.addrLoc(a.Binds[i], t)}
			}
		}
		for _, c := range fc.Preserves {
			t, err := e.evalSpec(c.Expr, &SpecCtx{e: e, pkg: fc.Pkg, pos: fcPos(a.Fn), params: env, cur: cur.st, old: pre, fc: fc})
			if err != nil {
				e.errorf("%s: preserves of %s: %v", fr.name, fc.Name, err)
				continue
			}
			e.assumeIf(cur.reach, t.T)
		}
	}
}

func markExt(v Val) Val {
	v.Ext = true
	for i := range v.Tup {
		v.Tup[i].Ext = true
	}
	return v
}

func (e *Enc) onStack(fr *Frame, fn *ssa.Function) bool {
	for f := fr; f != nil; f = f.caller {
		if f.fn == fn {
			return true
		}
	}
	return false
}

func isNilSafeGetter(fn *ssa.Function) bool {
	if !strings.HasPrefix(fn.Name(), "Get") {
		return false
	}
	if fn.Pkg == nil {
		return false
	}
	return strings.HasSuffix(fn.Pkg.Pkg.Path(), "/pb")
}

// autoInline: protobuf nil-safe getters and closures without their own contract.
func (e *Enc) autoInline(fn *ssa.Function) bool {
	if isNilSafeGetter(fn) && fn.Blocks != nil && len(fn.Blocks) <= 6 {
		return true
	}
	if fn.Parent() != nil {
		// closure called where it is made: expand unless it has a contract
		return true
	}
	return false
}

func (e *Enc) inertCallee(full string) bool {
	for _, p := range []string{"log/slog.", "(*log/slog.", "fmt.Sprintf", "fmt.Errorf", "fmt.Sprint", "errors.New", "(*github.com/libp2p/go-libp2p-pubsub/internal", "log.", "(log/slog.", "fmt.Fprintf", "fmt.Println", "fmt.Printf"} {
		if strings.HasPrefix(full, p) {
			return true
		}
	}
	return false
}

// escapeArgs: a field/element/cell address handed to an external function may be written by it.
func (e *Enc) escapeArgs(fr *Frame, args []Val, cur *pathState) {
	for _, a := range args {
		if a.Loc != nil && a.Loc.Kind != "local" {
			s := e.comps[a.Loc.Comp].Sort
			_ = s
			fv := e.fresh("esc")
			e.declare(fv, e.sortOf(a.Loc.Typ))
			e.storeLoc(a.Loc, cur.st, fv)
			e.note("address of a field/element passed to an external function: that location is havocked")
		} else if a.Loc != nil && a.Loc.Kind == "local" {
			fv := e.fresh("esc")
			e.declare(fv, e.sortOf(a.Loc.Typ))
			e.storeLoc(a.Loc, cur.st, fv)
		}
	}
}

func (e *Enc) inlineCall(fr *Frame, callee *ssa.Function, args []Val, binds []Val, resType types.Type, cur *pathState) Val {
	nf := e.newFrame(callee, fr)
	nf.params = args
	nf.binds = binds
	if e.inlineCount == nil {
		e.inlineCount = map[string]int{}
	}
	e.inlineCount[nf.name]++
	nf.inlineOrd = e.inlineCount[nf.name]
	exit, results, ok := e.runFunction(nf, *cur)
	if !ok {
		return e.freshResult(resType, cur, "inl")
	}
	// drop the callee's locals from the state
	for _, c := range nf.locals {
		delete(exit.st.v, c.Name)
	}
	*cur = exit
	switch len(results) {
	case 0:
		return Val{T: "unit", S: "Unit"}
	case 1:
		return results[0]
	}
	return Val{Tup: results, Typ: resType}
}

func (e *Enc) callSiteAsserts(fr *Frame, callee string, args []Val, cur *pathState, pos token.Pos) {
	top := fr
	if top.contract == nil {
		return
	}
	fr.callIdx[callee]++
	k := fr.callIdx[callee]
	for _, c := range top.contract.CallAsserts {
		if !calleeMatches(c.Callee, callee) || (c.CallK != 0 && c.CallK != k) {
			continue
		}
		extra := map[string]SV{}
		for i, a := range args {
			extra[fmt.Sprintf("$arg%d", i)] = SV{T: a.T, Sort: a.S, Typ: a.Typ}
		}
		t, err := e.evalClause(fr, c, cur.st, fr.entry, extra, true)
		if err != nil {
			e.errorf("%s: at call %s: %v", fr.name, callee, err)
			continue
		}
		lbl := c.Label
		if lbl == "" {
			lbl = fmt.Sprintf("%s#%d", callee, k)
		} else if c.CallK == 0 {
			lbl = fmt.Sprintf("%s#%d", lbl, k)
		}
		if c.Kind == "assume" {
			e.assumeIf(cur.reach, t)
			continue
		}
		e.addObl("callsite", e.framePrefix(fr)+lbl, cur.reach, t, pos, c.Text)
		e.assumeIf(cur.reach, t)
	}
}

// forgotten: the caller's contract says it does not use postcondition label of this call.
func (e *Enc) forgotten(fr *Frame, callee string, label string) bool {
	if fr.contract == nil {
		return false
	}
	k := fr.callIdx[callee]
	for _, f := range fr.contract.CallForget {
		if !calleeMatches(f.Callee, callee) || (f.K != 0 && f.K != k) {
			continue
		}
		if len(f.Labels) == 0 {
			return true
		}
		for _, l := range f.Labels {
			if l == label {
				return true
			}
		}
	}
	return false
}

func calleeMatches(pat, name string) bool {
	if pat == name || "dyn:"+pat == name {
		return true
	}
	// allow bare method name: sendGraft matches (*GossipSubRouter).sendGraft
	if strings.HasSuffix(name, ")."+pat) || strings.HasSuffix(name, "."+pat) {
		return true
	}
	return false
}

// ---------- interface invokes ----------

func (e *Enc) execInvoke(fr *Frame, c *ssa.CallCommon, recv Val, args []Val, resType types.Type, pos token.Pos, cur *pathState, instr ssa.Instruction) Val {
	res := e.execInvoke0(fr, c, recv, args, resType, pos, cur, instr)
	short := typeStr(c.Value.Type())
	if n, ok := c.Value.Type().(*types.Named); ok {
		short = n.Obj().Name()
	}
	e.recordRet(cur, short+"."+c.Method.Name(), res)
	return res
}

func (e *Enc) execInvoke0(fr *Frame, c *ssa.CallCommon, recv Val, args []Val, resType types.Type, pos token.Pos, cur *pathState, instr ssa.Instruction) Val {
	it := c.Value.Type()
	iname := typeStr(it)
	m := c.Method.Name()
	full := iname + "." + m
	if e.safeMode && full != "context.Context.Done" && full != "context.Context.Err" && full != "error.Error" {
		e.safety(fr, cur, "nilrecv", pos, not(eq(recv.T, "nilI")), instr)
	}
	if v, ok := e.ifaceModel(fr, full, recv, args, resType, cur); ok {
		return v
	}
	if false {
		e.safety(fr, cur, "nilrecv", pos, not(eq(recv.T, "nilI")), instr)
	}
	e.assumeIf(cur.reach, not(eq(recv.T, "nilI")))
	short := iname
	if n, ok := it.(*types.Named); ok {
		short = n.Obj().Name()
	}
	key := short + "." + m
	e.countCall(cur, key, append([]Val{recv}, args...))
	e.callSiteAsserts(fr, key, append([]Val{recv}, args...), cur, pos)
	if fc := e.cs.Ifaces[key]; fc != nil {
		fn := e.ifaceMethodFunc(it, m)
		ifaceNamed, _ = it.(*types.Named)
		if ifaceNamed != nil && (ifaceNamed.Obj().Pkg() == nil || !inModule(ifaceNamed.Obj().Pkg().Path())) {
			ifaceNamed = nil
		}
		ifaceMethod = m
		defer func() { ifaceNamed = nil }()
		return e.contractCallSig(fr, fc, fn, c.Method.Type().(*types.Signature), append([]Val{recv}, args...), resType, pos, cur, "call:"+key, true)
	}
	named, _ := it.(*types.Named)
	if named != nil && named.Obj().Pkg() != nil && inModule(named.Obj().Pkg().Path()) {
		ms := newModSet()
		e.curCallees = nil
		for _, impl := range e.mods.implsOf(named, m) {
			e.curCallees = append(e.curCallees, impl)
			if o := e.mods.of(impl); o != nil {
				ms.union(o)
				if o.Top {
					ms.Top = true
				}
			}
		}
		before := cur.st.clone()
		e.havocMods(fr, cur.st, ms, false)
		e.curCallees = nil
		e.allocMonotone(before, cur.st)
		e.clockMonotone(before, cur.st)
		e.note("interface call " + key + " without contract: state written by any in-module implementation is havocked; out-of-module implementations assumed not to touch module state")
		return e.freshResult(resType, cur, "inv_"+sanitize(m))
	}
	e.note("external interface call " + full + ": arbitrary result, no effect on module state")
	return markExt(e.freshResult(resType, cur, "inv_"+sanitize(m)))
}

func (e *Enc) ifaceMethodFunc(it types.Type, m string) *ssa.Function { return nil }

// ---------- contract calls ----------

func (e *Enc) contractCall(fr *Frame, fc *FuncContract, callee *ssa.Function, args []Val, resType types.Type, pos token.Pos, cur *pathState, label string) Val {
	return e.contractCallSig(fr, fc, callee, callee.Signature, args, resType, pos, cur, label, false)
}

// closureBinds: bindings of the closure being called through its contract (set by execStatic0).
var closureBinds []Val

var ifaceNamed *types.Named
var ifaceMethod string

func (e *Enc) contractCallSig(fr *Frame, fc *FuncContract, callee *ssa.Function, sig *types.Signature, args []Val, resType types.Type, pos token.Pos, cur *pathState, label string, isIface bool) Val {
	env := e.contractEnv(fc, callee, sig, args, isIface)
	pre := cur.st.clone()
	k := e.callCount[label]
	e.callCount[label] = k + 1
	letNames := map[string]bool{}
	for _, l := range fc.Lets {
		letNames[l.Name] = true
	}
	mentionsLet := func(x SExpr) bool {
		for n := range callNames(x, map[string]bool{}) {
			if letNames[n] {
				return true
			}
		}
		return false
	}
	// requires
	for i, c := range fc.Requires {
		if mentionsLet(c.Expr) {
			continue // definitional clause about the callee's own let-bound functions
		}
		t, err := e.evalSpec(c.Expr, &SpecCtx{e: e, pkg: fc.Pkg, pos: fcPos(callee), params: env, cur: pre, old: pre, fc: fc})
		if err != nil {
			e.errorf("%s: requires of %s: %v", fr.name, fc.Name, err)
			continue
		}
		lbl := c.Label
		if lbl == "" {
			lbl = fmt.Sprint(i + 1)
		}
		e.addObl("pre", fmt.Sprintf("%s%s:%s", e.framePrefix(fr), strings.TrimPrefix(label, "call:"), lbl), cur.reach, t.T, pos, c.Text)
		e.assumeIf(cur.reach, t.T)
	}
	// monitors the callee expects to be held: invariant must hold now (and holds again after)
	var heldInv []func(st *St) []string
	for _, h := range fc.Holds {
		m, owner := e.heldMonitorArgs(callee, args, h)
		if m == nil {
			continue
		}
		mm, oo := m, owner
		for i, inv := range e.monitorInv(mm, oo, pre) {
			lbl := mm.Inv[i].Label
			if lbl == "" {
				lbl = fmt.Sprint(i + 1)
			}
			e.addObl("monitor", fmt.Sprintf("%s%s.%s:%s@call:%s", e.framePrefix(fr), mm.Struct, mm.Mutex, lbl, strings.TrimPrefix(label, "call:")), cur.reach, inv, pos, mm.Inv[i].Text)
		}
		heldInv = append(heldInv, func(st *St) []string { return e.monitorInv(mm, oo, st) })
	}
	// frame: havoc modifies
	post := cur.st
	if (fc.NoFrame || !fc.HasMod) && !fc.Pure {
		// the contract does not (verifiably) bound the callee's writes: fall back to the
		// body-derived mod-set of the callee (or of all implementations for interfaces)
		ms := newModSet()
		e.curCallees = nil
		if callee != nil {
			e.curCallees = []*ssa.Function{callee}
			if o := e.mods.of(callee); o != nil {
				ms.union(o)
				ms.Top = o.Top
			} else {
				ms.Top = true
			}
		} else if ifaceNamed != nil {
			for _, impl := range e.mods.implsOf(ifaceNamed, ifaceMethod) {
				e.curCallees = append(e.curCallees, impl)
				if o := e.mods.of(impl); o != nil {
					ms.union(o)
					if o.Top {
						ms.Top = true
					}
				}
			}
		}
		e.havocMods(fr, post, ms, false)
		e.curCallees = nil
	}
	e.applyModifies(fc, env, callee, pre, post)
	e.allocMonotone(pre, post)
	e.clockMonotone(pre, post)
	// results
	res := e.freshResult(resType, cur, "r_"+sanitize(fc.Name))
	var rvals []Val
	if res.Tup != nil {
		rvals = res.Tup
	} else if res.S != "Unit" {
		rvals = []Val{res}
	}
	for _, f := range heldInv {
		for _, inv := range f(post) {
			e.assumeIf(cur.reach, inv)
		}
	}
	for _, c := range fc.GhostEffects {
		t, err := e.evalSpec(c.Expr, &SpecCtx{e: e, pkg: fc.Pkg, pos: fcPos(callee), params: env, cur: post, old: pre, results: rvals, sig: sig, fc: fc})
		if err != nil {
			e.errorf("%s: ghost-effect of %s: %v", fr.name, fc.Name, err)
			continue
		}
		e.assumeIf(cur.reach, t.T)
	}
	for _, c := range fc.Ensures {
		if e.forgotten(fr, fc.Name, c.Label) {
			continue
		}
		for _, part := range splitConjuncts(c.Expr) {
			if e.mentionsCallGhostsDeep(part, map[string]bool{}) || mentionsLet(part) {
				// postconditions about the callee's own direct calls say nothing in the caller
				continue
			}
			t, err := e.evalSpec(part, &SpecCtx{e: e, pkg: fc.Pkg, pos: fcPos(callee), params: env, cur: post, old: pre, results: rvals, sig: sig, fc: fc})
			if err != nil {
				if strings.Contains(err.Error(), "unknown identifier") {
					// clause about the callee's local variables: meaningless for callers
					continue
				}
				e.errorf("%s: ensures of %s: %v", fr.name, fc.Name, err)
				continue
			}
			e.assumeIf(cur.reach, t.T)
		}
	}
	return res
}

func fcPos(fn *ssa.Function) token.Pos {
	if fn == nil {
		return token.NoPos
	}
	return fn.Pos()
}

// contractEnv binds parameter names (and the receiver name) to argument values.
func (e *Enc) contractEnv(fc *FuncContract, callee *ssa.Function, sig *types.Signature, args []Val, isIface bool) map[string]SV {
	env := map[string]SV{}
	if callee != nil && len(callee.Params) == len(args) {
		for i, p := range callee.Params {
			env[p.Name()] = SV{T: args[i].T, Sort: args[i].S, Typ: p.Type()}
		}
		for i, fv := range callee.FreeVars {
			if i >= len(closureBinds) {
				break
			}
			if _, shadow := env[fv.Name()]; shadow {
				continue
			}
			t := fv.Type().Underlying().(*types.Pointer).Elem()
			if isObjStruct(t) {
				env[fv.Name()] = SV{T: closureBinds[i].T, Sort: "Ref", Typ: fv.Type()}
			} else {
				env[fv.Name()] = SV{Typ: t, Loc: e.addrLoc(closureBinds[i], t)}
			}
		}
		return env
	}
	// interface method: receiver is "self", params by signature names
	i := 0
	if isIface {
		env["self"] = SV{T: args[0].T, Sort: args[0].S, Typ: args[0].Typ}
		i = 1
	}
	ps := sig.Params()
	for j := 0; j < ps.Len() && i < len(args); j++ {
		n := ps.At(j).Name()
		if n == "" || n == "_" {
			n = fmt.Sprintf("arg%d", j)
		}
		env[n] = SV{T: args[i].T, Sort: args[i].S, Typ: ps.At(j).Type()}
		i++
	}
	return env
}

// mentionsCallGhostsDeep: like mentionsCallGhosts, but also looks into the bodies of the spec
// functions the expression applies (nVal(), nRejTrace(), ... are defined in terms of calls()).
func (e *Enc) mentionsCallGhostsDeep(x SExpr, seen map[string]bool) bool {
	if mentionsCallGhosts(x) {
		return true
	}
	found := false
	var walk func(SExpr)
	walk = func(y SExpr) {
		if found || y == nil {
			return
		}
		switch n := y.(type) {
		case *SCall:
			name := n.Fn
			if sf := e.cs.SpecFns[name]; sf != nil && sf.Body != nil && !seen[name] {
				seen[name] = true
				if e.mentionsCallGhostsDeep(sf.Body, seen) {
					found = true
					return
				}
			}
			for _, a := range n.Args {
				walk(a)
			}
		case *SBin:
			walk(n.L)
			walk(n.R)
		case *SUn:
			walk(n.X)
		case *SQuant:
			walk(n.Body)
		case *SField:
			walk(n.X)
		case *SIndex:
			walk(n.X)
			walk(n.I)
		}
	}
	walk(x)
	return found
}

func mentionsCallGhosts(x SExpr) bool {
	switch n := x.(type) {
	case *SCall:
		if n.Fn == "calls" || n.Fn == "lastret" || n.Fn == "lastarg" || n.Fn == "firstret" || n.Fn == "countret" || n.Fn == "countrecv" || n.Fn == "recvs" || n.Fn == "passed" || n.Fn == "alltrue" {
			return true
		}
		for _, a := range n.Args {
			if mentionsCallGhosts(a) {
				return true
			}
		}
	case *SBin:
		return mentionsCallGhosts(n.L) || mentionsCallGhosts(n.R)
	case *SUn:
		return mentionsCallGhosts(n.X)
	case *SQuant:
		return mentionsCallGhosts(n.Body)
	case *SField:
		return mentionsCallGhosts(n.X)
	case *SIndex:
		return mentionsCallGhosts(n.X) || mentionsCallGhosts(n.I)
	}
	return false
}

// nilSafeMethod: the method starts by testing its receiver against nil.
func nilSafeMethod(fn *ssa.Function) bool {
	if len(fn.Blocks) == 0 || len(fn.Params) == 0 {
		return false
	}
	b := fn.Blocks[0]
	var recvAlloc *ssa.Alloc
	for _, ins := range b.Instrs {
		if st, ok := ins.(*ssa.Store); ok && st.Val == ssa.Value(fn.Params[0]) {
			if a, ok := st.Addr.(*ssa.Alloc); ok {
				recvAlloc = a
			}
		}
	}
	iff, ok := b.Instrs[len(b.Instrs)-1].(*ssa.If)
	if !ok {
		return false
	}
	bo, ok := iff.Cond.(*ssa.BinOp)
	if !ok || (bo.Op != token.EQL && bo.Op != token.NEQ) {
		return false
	}
	isRecv := func(v ssa.Value) bool {
		if v == ssa.Value(fn.Params[0]) {
			return true
		}
		if u, ok := v.(*ssa.UnOp); ok && u.Op == token.MUL {
			if a, ok := u.X.(*ssa.Alloc); ok && a == recvAlloc {
				return true
			}
		}
		return false
	}
	isNil := func(v ssa.Value) bool {
		c, ok := v.(*ssa.Const)
		return ok && c.Value == nil
	}
	return (isRecv(bo.X) && isNil(bo.Y)) || (isRecv(bo.Y) && isNil(bo.X))
}

// heldMonitorArgs resolves "holds Struct.mutex[@param]" of a callee contract against call arguments.
func (e *Enc) heldMonitorArgs(callee *ssa.Function, args []Val, h string) (*Monitor, string) {
	ownerName := ""
	if i := strings.Index(h, "@"); i >= 0 {
		ownerName = h[i+1:]
		h = h[:i]
	}
	for _, m := range e.cs.Monitors {
		if m.Struct+"."+m.Mutex != h {
			continue
		}
		if callee == nil || len(args) == 0 {
			return nil, ""
		}
		owner := args[0].T
		for i, p := range callee.Params {
			if p.Name() == ownerName && i < len(args) {
				owner = args[i].T
			}
		}
		return m, owner
	}
	return nil, ""
}

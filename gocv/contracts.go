package main

import (
	"fmt"
	"os"
	"path/filepath"
	"regexp"
	"sort"
	"strconv"
	"strings"
)

// Clause is one spec clause with provenance.
type Clause struct {
	Kind   string // requires ensures invariant assert axiom
	Label  string
	Text   string
	Expr   SExpr
	Loop   int    // for loop clauses
	Callee string // for "at call" clauses
	CallK  int    // 0 = any/all, k>=1 the k-th call of callee in source order
	File   string
	Line   int
}

type ForgetSpec struct {
	Callee string
	K      int
	Labels []string
}

type FuncContract struct {
	Name      string
	Pkg       string // package path the contract file lives in
	Props     []string
	Requires  []*Clause
	Ensures   []*Clause
	GhostEffects []*Clause // definitional ghost updates: assumed by callers, not checked in the body
	RmulSigns bool      // use the sign axioms of the uninterpreted real multiplication
	Lets      []*SpecFn // function-local definitions: name(args) type = expr, evaluated in the entry state
	HasMod    bool
	Modifies  []SExpr
	Preserves []*Clause
	LoopInv   map[int][]*Clause
	LoopCut    map[int]bool
	InlineLoopCut []*Clause
	LoopAssume map[int][]*Clause // assumed (unchecked, reported) facts at a loop head: loop n assume label: P
	LoopStep  map[int][]*Clause // per-iteration postconditions: loop n step label: P (iter(e) = e at the start of the iteration)
	InlineLoopInv []*Clause // invariants for loops of callees expanded in place: loop callee[#k].n invariant
	LoopMod   map[int][]SExpr
	CallAsserts []*Clause
	CallForget  []ForgetSpec
	CancellableParam string // the parameter that is the lifetime context (goroutine roots)
	Cancellable  bool // effect contract audited for C14: every blocking channel operation can be abandoned on cancellation
	AllocCounter bool // allocation represented as a counter (scalar monotonicity) instead of a set
	Inline    bool // expand body at call sites instead of using the contract
	Safe      bool // generate panic-freedom obligations
	Trusted   bool // contract is assumed; body not verified (listed)
	NoFrame   bool // do not generate frame obligations (sweep-only functions)
	InLoop    bool // requires the event-loop permission
	Holds     []string // monitors held on entry (lock already taken by caller)
	Pure      bool
	Reads     []string
	File      string
	Line      int
	Lemma     bool
	DynPure   []string // names of func-valued fields/vars whose calls are treated as external/pure
	Notes     []string
}

type SpecFn struct {
	Name   string
	Params []SBinder
	Ret    string
	Body   SExpr // nil => uninterpreted
	Pkg    string
	File   string
	Line   int
}

type GhostVar struct {
	Name string
	Sort string // type text
	Pkg  string
}

type Monitor struct {
	Struct   string   // struct type short name, e.g. rpcQueue
	Mutex    string   // field name, e.g. queueMu
	Protects []string // field paths relative to the struct, e.g. closed, queue.normal
	Ghosts   []string
	Inv      []*Clause // over `self`
	Conds    []string  // cond fields that must be notified under the mutex
	Pkg      string
}

type Contracts struct {
	Funcs    map[string]*FuncContract
	Ifaces   map[string]*FuncContract // "Iface.Method"
	SpecFns  map[string]*SpecFn
	Ghosts   map[string]*GhostVar
	Axioms   []*Clause
	Monitors []*Monitor
	Confined map[string][]string // struct -> fields confined to the event loop
	InertPkgs []string
	Files    []string
	DynBind  map[string]string // name of a func-valued field/variable -> the only function it holds
	Tracks   map[string][]string // ghost var -> struct names / map types whose writes invalidate it
	Owns     map[string][]string // struct -> fields whose (map) contents are reachable only through that struct
}

var labelRe = regexp.MustCompile(`^([A-Za-z_][A-Za-z0-9_\-]*):\s+(.*)$`)

func splitLabel(s string) (string, string) {
	s = strings.TrimSpace(s)
	if m := labelRe.FindStringSubmatch(s); m != nil {
		// avoid treating "forall x T :: ..." etc. as label: the regexp requires "ident: " with one colon
		if !strings.HasPrefix(m[2], ":") {
			return m[1], m[2]
		}
	}
	return "", s
}

var clauseKeywords = map[string]bool{
	"preserves": true, "alloc-counter": true, "cancellable": true, "rmul-signs": true, "let": true, "owns": true, "tracks": true, "dynbind": true, "ghost-effect": true, "func": true, "property": true, "requires": true, "ensures": true, "modifies": true,
	"loop": true, "at": true, "inline": true, "safe": true, "trusted": true, "noframe": true,
	"inloop": true, "holds": true, "pure": true, "ghost": true, "spec": true, "axiom": true,
	"iface": true, "monitor": true, "confined": true, "lemma": true, "dynpure": true, "note": true,
	"protects": true, "invariant": true, "cond": true, "ghosts": true, "inert": true,
}

// loadContracts reads every *_verif.go file under dir (recursively, skipping hidden dirs)
// and parses the //@ lines.
func loadContracts(dir string, pkgPathOf func(dir string) string) (*Contracts, error) {
	cs := &Contracts{Funcs: map[string]*FuncContract{}, Ifaces: map[string]*FuncContract{}, SpecFns: map[string]*SpecFn{}, Ghosts: map[string]*GhostVar{}, Confined: map[string][]string{}, DynBind: map[string]string{}, Tracks: map[string][]string{}, Owns: map[string][]string{}}
	var files []string
	filepath.Walk(dir, func(p string, info os.FileInfo, err error) error {
		if err != nil {
			return nil
		}
		if info.IsDir() {
			if strings.HasPrefix(info.Name(), ".") && p != dir {
				return filepath.SkipDir
			}
			return nil
		}
		if strings.HasSuffix(p, "_verif.go") {
			files = append(files, p)
		}
		return nil
	})
	sort.Strings(files)
	cs.Files = files
	for _, f := range files {
		if err := cs.parseFile(f, pkgPathOf(filepath.Dir(f))); err != nil {
			return nil, err
		}
	}
	return cs, nil
}

type rawLine struct {
	text string
	line int
}

func (cs *Contracts) parseFile(file, pkg string) error {
	data, err := os.ReadFile(file)
	if err != nil {
		return err
	}
	// gather logical lines: a //@ line whose first word is not a keyword continues the previous one
	var lines []rawLine
	for i, l := range strings.Split(string(data), "\n") {
		t := strings.TrimSpace(l)
		if !strings.HasPrefix(t, "//@") {
			continue
		}
		body := strings.TrimSpace(strings.TrimPrefix(t, "//@"))
		if body == "" {
			continue
		}
		if strings.HasPrefix(body, "#") { // comment inside contract file
			continue
		}
		first := body
		if idx := strings.IndexAny(body, " \t"); idx >= 0 {
			first = body[:idx]
		}
		if !clauseKeywords[first] && len(lines) > 0 {
			lines[len(lines)-1].text += " " + body
			continue
		}
		lines = append(lines, rawLine{body, i + 1})
	}
	var cur *FuncContract
	var curMon *Monitor
	mkClause := func(kind, rest string, ln int) (*Clause, error) {
		label, text := splitLabel(rest)
		ex, err := parseSpec(text)
		if err != nil {
			return nil, fmt.Errorf("%s:%d: %v", file, ln, err)
		}
		return &Clause{Kind: kind, Label: label, Text: text, Expr: ex, File: file, Line: ln}, nil
	}
	parseList := func(rest string, ln int) ([]SExpr, error) {
		var out []SExpr
		for _, item := range splitTop(rest, ',') {
			item = strings.TrimSpace(item)
			if item == "" {
				continue
			}
			ex, err := parseSpec(item)
			if err != nil {
				return nil, fmt.Errorf("%s:%d: %v", file, ln, err)
			}
			out = append(out, ex)
		}
		return out, nil
	}
	for _, rl := range lines {
		body := rl.text
		kw := body
		rest := ""
		if idx := strings.IndexAny(body, " \t"); idx >= 0 {
			kw = body[:idx]
			rest = strings.TrimSpace(body[idx+1:])
		}
		switch kw {
		case "func", "iface", "lemma":
			name := rest
			if kw != "iface" && rest != "*" {
				name = qualifyFuncName(rest, pkg)
			}
			fc := &FuncContract{Name: name, Pkg: pkg, LoopInv: map[int][]*Clause{}, LoopStep: map[int][]*Clause{}, LoopAssume: map[int][]*Clause{}, LoopCut: map[int]bool{}, LoopMod: map[int][]SExpr{}, File: file, Line: rl.line}
			curMon = nil
			if kw == "iface" {
				if _, dup := cs.Ifaces[name]; dup {
					return fmt.Errorf("%s:%d: duplicate iface contract %s", file, rl.line, name)
				}
				cs.Ifaces[name] = fc
			} else {
				if kw == "lemma" {
					fc.Lemma = true
				}
				if _, dup := cs.Funcs[name]; dup {
					return fmt.Errorf("%s:%d: duplicate contract for %s", file, rl.line, name)
				}
				cs.Funcs[name] = fc
			}
			cur = fc
		case "property":
			if cur == nil {
				return fmt.Errorf("%s:%d: property outside func", file, rl.line)
			}
			cur.Props = append(cur.Props, strings.Fields(rest)...)
		case "requires", "ensures", "preserves":
			if cur == nil {
				return fmt.Errorf("%s:%d: %s outside func", file, rl.line, kw)
			}
			c, err := mkClause(kw, rest, rl.line)
			if err != nil {
				return err
			}
			if kw == "requires" {
				cur.Requires = append(cur.Requires, c)
			} else if kw == "preserves" {
				// a reflexive, transitive two-state relation every call maintains: proved as a
				// postcondition, assumed across any number of calls made by external code
				cur.Preserves = append(cur.Preserves, c)
				cur.Ensures = append(cur.Ensures, c)
			} else {
				cur.Ensures = append(cur.Ensures, c)
			}
		case "ghost-effect":
			if cur == nil {
				return fmt.Errorf("%s:%d: ghost-effect outside func", file, rl.line)
			}
			c, err := mkClause("ghost-effect", rest, rl.line)
			if err != nil {
				return err
			}
			cur.GhostEffects = append(cur.GhostEffects, c)
		case "modifies":
			if cur == nil {
				return fmt.Errorf("%s:%d: modifies outside func", file, rl.line)
			}
			cur.HasMod = true
			if rest != "nothing" {
				l, err := parseList(rest, rl.line)
				if err != nil {
					return err
				}
				cur.Modifies = append(cur.Modifies, l...)
			}
		case "loop":
			if cur == nil {
				return fmt.Errorf("%s:%d: loop outside func", file, rl.line)
			}
			f := strings.Fields(rest)
			if len(f) < 2 {
				return fmt.Errorf("%s:%d: bad loop clause", file, rl.line)
			}
			n, err := strconv.Atoi(f[0])
			inlCallee, inlK := "", 0
			if err != nil {
				// loop callee[#k].n invariant ... : a loop inside a callee that is expanded in place
				dot := strings.LastIndex(f[0], ".")
				if dot < 0 {
					return fmt.Errorf("%s:%d: bad loop ordinal", file, rl.line)
				}
				n, err = strconv.Atoi(f[0][dot+1:])
				if err != nil {
					return fmt.Errorf("%s:%d: bad loop ordinal", file, rl.line)
				}
				inlCallee = f[0][:dot]
				if h := strings.LastIndex(inlCallee, "#"); h >= 0 {
					inlK, _ = strconv.Atoi(inlCallee[h+1:])
					inlCallee = inlCallee[:h]
				}
			}
			tail := strings.TrimSpace(strings.TrimPrefix(strings.TrimSpace(strings.TrimPrefix(rest, f[0])), f[1]))
			switch f[1] {
			case "invariant":
				c, err := mkClause("invariant", tail, rl.line)
				if err != nil {
					return err
				}
				c.Loop = n
				if inlCallee != "" {
					c.Callee, c.CallK = inlCallee, inlK
					cur.InlineLoopInv = append(cur.InlineLoopInv, c)
				} else {
					cur.LoopInv[n] = append(cur.LoopInv[n], c)
				}
			case "cut":
				// loop n cut: obligations inside this loop see only the entry-state facts, the
				// loop-head assumptions (invariants) and the body: everything else proved before
				// the loop is dropped from their context (sound: fewer assumptions)
				if inlCallee != "" {
					cur.InlineLoopCut = append(cur.InlineLoopCut, &Clause{Kind: "cut", Loop: n, Callee: inlCallee, CallK: inlK})
				} else {
					cur.LoopCut[n] = true
				}
			case "assume":
				c, err := mkClause("loopassume", tail, rl.line)
				if err != nil {
					return err
				}
				c.Loop = n
				cur.LoopAssume[n] = append(cur.LoopAssume[n], c)
				cur.Notes = append(cur.Notes, fmt.Sprintf("ASSUMED at the head of loop %d of %s (not checked): %s", n, cur.Name, c.Text))
			case "step":
				c, err := mkClause("step", tail, rl.line)
				if err != nil {
					return err
				}
				c.Loop = n
				cur.LoopStep[n] = append(cur.LoopStep[n], c)
			case "modifies":
				l, err := parseList(tail, rl.line)
				if err != nil {
					return err
				}
				cur.LoopMod[n] = append(cur.LoopMod[n], l...)
			default:
				return fmt.Errorf("%s:%d: bad loop clause kind %s", file, rl.line, f[1])
			}
		case "at":
			// at call <callee>[#k] assert label: expr
			if cur == nil {
				return fmt.Errorf("%s:%d: at outside func", file, rl.line)
			}
			f := strings.Fields(rest)
			if len(f) >= 3 && f[0] == "call" && f[2] == "forget" {
				// at call <callee>[#k] forget [labels]: the caller does not use these
				// postconditions of the callee (assuming less is sound; keeps queries small)
				callee := f[1]
				k := 0
				if idx := strings.LastIndex(callee, "#"); idx >= 0 {
					k, _ = strconv.Atoi(callee[idx+1:])
					callee = callee[:idx]
				}
				cur.CallForget = append(cur.CallForget, ForgetSpec{Callee: callee, K: k, Labels: f[3:]})
				break
			}
			if len(f) < 4 || f[0] != "call" || (f[2] != "assert" && f[2] != "assume") {
				return fmt.Errorf("%s:%d: expected 'at call <callee> assert|assume <expr>'", file, rl.line)
			}
			kw := f[2]
			callee := f[1]
			k := 0
			if idx := strings.LastIndex(callee, "#"); idx >= 0 {
				k, _ = strconv.Atoi(callee[idx+1:])
				callee = callee[:idx]
			}
			i := strings.Index(rest, " "+kw+" ")
			c, err := mkClause(kw, rest[i+len(" "+kw+" "):], rl.line)
			if err != nil {
				return err
			}
			c.Callee, c.CallK = callee, k
			if kw == "assume" {
				cur.Notes = append(cur.Notes, fmt.Sprintf("ASSUMED at call %s in %s (not checked): %s", f[1], cur.Name, c.Text))
			}
			cur.CallAsserts = append(cur.CallAsserts, c)
		case "alloc-counter":
			cur.AllocCounter = true
		case "cancellable":
			cur.Cancellable = true
			cur.CancellableParam = strings.TrimSpace(rest)
		case "inline":
			cur.Inline = true
		case "safe":
			cur.Safe = true
		case "trusted":
			cur.Trusted = true
			if rest != "" {
				cur.Notes = append(cur.Notes, "trusted: "+rest)
			}
		case "noframe":
			cur.NoFrame = true
		case "inloop":
			cur.InLoop = true
		case "holds":
			cur.Holds = append(cur.Holds, strings.Fields(rest)...)
		case "pure":
			cur.Pure = true
		case "dynpure":
			cur.DynPure = append(cur.DynPure, strings.Fields(rest)...)
		case "rmul-signs":
			if cur != nil {
				cur.RmulSigns = true
			}
		case "let":
			if cur == nil {
				return fmt.Errorf("%s:%d: let outside func", file, rl.line)
			}
			sf, err := parseSpecFnDecl(rest, pkg, file, rl.line)
			if err != nil {
				return err
			}
			cur.Lets = append(cur.Lets, sf)
		case "owns":
			idx := strings.Index(rest, ":")
			if idx < 0 {
				return fmt.Errorf("%s:%d: expected 'owns <Struct>: f1, f2'", file, rl.line)
			}
			st := strings.TrimSpace(rest[:idx])
			for _, x := range splitTop(rest[idx+1:], ',') {
				cs.Owns[st] = append(cs.Owns[st], strings.TrimSpace(x))
			}
		case "tracks":
			// tracks <ghost>: Struct1, Struct2, map[K]V
			idx := strings.Index(rest, ":")
			if idx < 0 {
				return fmt.Errorf("%s:%d: expected 'tracks <ghost>: <types>'", file, rl.line)
			}
			g := strings.TrimSpace(rest[:idx])
			for _, x := range splitTop(rest[idx+1:], ',') {
				cs.Tracks[g] = append(cs.Tracks[g], strings.TrimSpace(x))
			}
		case "dynbind":
			f := strings.Fields(rest)
			if len(f) != 2 {
				return fmt.Errorf("%s:%d: expected 'dynbind <name> <function>'", file, rl.line)
			}
			cs.DynBind[f[0]] = f[1]
		case "note":
			if cur != nil {
				cur.Notes = append(cur.Notes, rest)
			}
		case "ghost":
			// ghost var name type
			f := strings.Fields(rest)
			if len(f) < 3 || f[0] != "var" {
				return fmt.Errorf("%s:%d: expected 'ghost var <name> <type>'", file, rl.line)
			}
			cs.Ghosts[f[1]] = &GhostVar{Name: f[1], Sort: strings.TrimSpace(strings.TrimPrefix(strings.TrimSpace(strings.TrimPrefix(rest, "var")), f[1])), Pkg: pkg}
		case "spec":
			// spec fn name(a T, b U) R [= expr]
			if !strings.HasPrefix(rest, "fn ") {
				return fmt.Errorf("%s:%d: expected 'spec fn'", file, rl.line)
			}
			sf, err := parseSpecFnDecl(strings.TrimSpace(rest[3:]), pkg, file, rl.line)
			if err != nil {
				return err
			}
			cs.SpecFns[sf.Name] = sf
		case "axiom":
			c, err := mkClause("axiom", rest, rl.line)
			if err != nil {
				return err
			}
			cs.Axioms = append(cs.Axioms, c)
		case "monitor":
			// monitor rpcQueue.queueMu
			f := strings.Fields(rest)
			if len(f) < 1 || !strings.Contains(f[0], ".") {
				return fmt.Errorf("%s:%d: expected 'monitor Struct.mutexField'", file, rl.line)
			}
			idx := strings.LastIndex(f[0], ".")
			curMon = &Monitor{Struct: f[0][:idx], Mutex: f[0][idx+1:], Pkg: pkg}
			cs.Monitors = append(cs.Monitors, curMon)
			cur = nil
		case "protects":
			if curMon == nil {
				return fmt.Errorf("%s:%d: protects outside monitor", file, rl.line)
			}
			for _, x := range splitTop(rest, ',') {
				curMon.Protects = append(curMon.Protects, strings.TrimSpace(x))
			}
		case "ghosts":
			if curMon == nil {
				return fmt.Errorf("%s:%d: ghosts outside monitor", file, rl.line)
			}
			for _, x := range splitTop(rest, ',') {
				curMon.Ghosts = append(curMon.Ghosts, strings.TrimSpace(x))
			}
		case "invariant":
			if curMon == nil {
				return fmt.Errorf("%s:%d: invariant outside monitor", file, rl.line)
			}
			c, err := mkClause("invariant", rest, rl.line)
			if err != nil {
				return err
			}
			curMon.Inv = append(curMon.Inv, c)
		case "cond":
			if curMon == nil {
				return fmt.Errorf("%s:%d: cond outside monitor", file, rl.line)
			}
			curMon.Conds = append(curMon.Conds, strings.Fields(rest)...)
		case "confined":
			// confined PubSub: mySubs, myRelays
			idx := strings.Index(rest, ":")
			if idx < 0 {
				return fmt.Errorf("%s:%d: expected 'confined Struct: f1, f2'", file, rl.line)
			}
			st := strings.TrimSpace(rest[:idx])
			for _, x := range splitTop(rest[idx+1:], ',') {
				cs.Confined[st] = append(cs.Confined[st], strings.TrimSpace(x))
			}
		case "inert":
			cs.InertPkgs = append(cs.InertPkgs, strings.Fields(rest)...)
		default:
			return fmt.Errorf("%s:%d: unknown clause keyword %q", file, rl.line, kw)
		}
	}
	return nil
}

func matchParen(s string, open int) int {
	depth := 0
	for i := open; i < len(s); i++ {
		switch s[i] {
		case '(', '[', '{':
			depth++
		case ')', ']', '}':
			depth--
			if depth == 0 {
				return i
			}
		}
	}
	return -1
}

// splitTop splits on sep at bracket depth 0.
func splitTop(s string, sep byte) []string {
	var out []string
	depth := 0
	start := 0
	inStr := false
	for i := 0; i < len(s); i++ {
		c := s[i]
		if c == '"' {
			inStr = !inStr
		}
		if inStr {
			continue
		}
		switch c {
		case '(', '[', '{':
			depth++
		case ')', ']', '}':
			depth--
		default:
			if c == sep && depth == 0 {
				out = append(out, s[start:i])
				start = i + 1
			}
		}
	}
	out = append(out, s[start:])
	return out
}

// qualifyFuncName prefixes names in contract files of sub-packages with the package's short
// path: sweep -> timecache.sweep, (*FirstSeenCache).Add -> (*timecache.FirstSeenCache).Add.
func qualifyFuncName(name, pkg string) string {
	sp := shortPkg(pkg)
	if sp == "" {
		return name
	}
	if strings.HasPrefix(name, "(*") {
		if strings.HasPrefix(name, "(*"+sp+".") {
			return name
		}
		return "(*" + sp + "." + name[2:]
	}
	if strings.HasPrefix(name, "(") {
		if strings.HasPrefix(name, "("+sp+".") {
			return name
		}
		return "(" + sp + "." + name[1:]
	}
	if strings.HasPrefix(name, sp+".") {
		return name
	}
	return sp + "." + name
}

// parseSpecFnDecl parses "name(a T, b U) R [= expr]".
func parseSpecFnDecl(r, pkg, file string, line int) (*SpecFn, error) {
	op := strings.Index(r, "(")
	if op < 0 {
		return nil, fmt.Errorf("%s:%d: bad spec fn", file, line)
	}
	name := strings.TrimSpace(r[:op])
	cl := matchParen(r, op)
	if cl < 0 {
		return nil, fmt.Errorf("%s:%d: bad spec fn params", file, line)
	}
	var params []SBinder
	for _, ptxt := range splitTop(r[op+1:cl], ',') {
		ptxt = strings.TrimSpace(ptxt)
		if ptxt == "" {
			continue
		}
		idx := strings.IndexAny(ptxt, " \t")
		if idx < 0 {
			return nil, fmt.Errorf("%s:%d: bad spec fn param %q", file, line, ptxt)
		}
		params = append(params, SBinder{ptxt[:idx], strings.TrimSpace(ptxt[idx+1:])})
	}
	tail := strings.TrimSpace(r[cl+1:])
	ret := tail
	var bodyE SExpr
	if eq := strings.Index(tail, "="); eq >= 0 && !strings.HasPrefix(tail[eq:], "==") {
		ret = strings.TrimSpace(tail[:eq])
		ex, err := parseSpec(strings.TrimSpace(tail[eq+1:]))
		if err != nil {
			return nil, fmt.Errorf("%s:%d: %v", file, line, err)
		}
		bodyE = ex
	}
	return &SpecFn{Name: name, Params: params, Ret: ret, Body: bodyE, Pkg: pkg, File: file, Line: line}, nil
}

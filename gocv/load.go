package main

import (
	"fmt"
	"go/token"
	"go/types"
	"os"
	"sort"
	"strings"

	"golang.org/x/tools/go/packages"
	"golang.org/x/tools/go/ssa"
	"golang.org/x/tools/go/ssa/ssautil"
)

const modPath = "github.com/libp2p/go-libp2p-pubsub"

// World is the loaded program: typed syntax + naive-form SSA of /repo's working tree.
type World struct {
	Fset  *token.FileSet
	Prog  *ssa.Program
	Pkgs  []*packages.Package
	SPkgs map[string]*ssa.Package // by import path
	Funcs map[string]*ssa.Function // short name -> function
	Dir   string
	sentinel map[*ssa.Global]bool
}

func inModule(path string) bool {
	return path == modPath || strings.HasPrefix(path, modPath+"/")
}

func shortPkg(path string) string {
	if path == modPath {
		return ""
	}
	if strings.HasPrefix(path, modPath+"/") {
		return strings.TrimPrefix(path, modPath+"/")
	}
	return path
}

// shortFuncName gives the key used in contract files:
//
//	(*priorityQueue).Pop, newRpcQueue, timecache.sweep, (*timecache.FirstSeenCache).Add,
//	(*rpcQueue).Pop$1
func shortFuncName(fn *ssa.Function) string {
	if fn.Parent() != nil {
		// anonymous function: Parent$k
		n := fn.Name() // e.g. Pop$1
		p := fn.Parent()
		for p.Parent() != nil {
			p = p.Parent()
		}
		base := shortFuncName(p)
		// strip the parent's plain name from n to keep suffix
		idx := strings.Index(n, "$")
		if idx >= 0 {
			return base + n[idx:]
		}
		return base + "$" + n
	}
	pkg := ""
	if fn.Pkg != nil {
		pkg = shortPkg(fn.Pkg.Pkg.Path())
	} else if fn.Object() != nil && fn.Object().Pkg() != nil {
		pkg = shortPkg(fn.Object().Pkg().Path())
	}
	if recv := fn.Signature.Recv(); recv != nil {
		t := recv.Type()
		ptr := false
		if p, ok := t.(*types.Pointer); ok {
			ptr = true
			t = p.Elem()
		}
		name := "?"
		if n, ok := t.(*types.Named); ok {
			name = n.Obj().Name()
			if n.Obj().Pkg() != nil {
				pkg = shortPkg(n.Obj().Pkg().Path())
			}
		}
		if pkg != "" {
			name = pkg + "." + name
		}
		if ptr {
			return "(*" + name + ")." + fn.Name()
		}
		return "(" + name + ")." + fn.Name()
	}
	if pkg != "" {
		return pkg + "." + fn.Name()
	}
	return fn.Name()
}

func loadWorld(dir string) (*World, error) {
	cfg := &packages.Config{
		Mode:       packages.LoadAllSyntax,
		Dir:        dir,
		BuildFlags: []string{"-tags=verif"},
		Env:        append(os.Environ(), "GOFLAGS=-mod=mod", "GOPROXY=off"),
	}
	pkgs, err := packages.Load(cfg, "./...")
	if err != nil {
		return nil, err
	}
	nerr := 0
	for _, p := range pkgs {
		for _, e := range p.Errors {
			fmt.Fprintf(os.Stderr, "load error: %s: %v\n", p.PkgPath, e)
			nerr++
		}
	}
	if nerr > 0 {
		return nil, fmt.Errorf("%d package load errors", nerr)
	}
	prog, spkgs := ssautil.AllPackages(pkgs, ssa.NaiveForm|ssa.InstantiateGenerics)
	prog.Build()
	w := &World{Prog: prog, Pkgs: pkgs, SPkgs: map[string]*ssa.Package{}, Funcs: map[string]*ssa.Function{}, Dir: dir}
	if len(pkgs) > 0 {
		w.Fset = pkgs[0].Fset
	}
	for i, sp := range spkgs {
		if sp != nil {
			w.SPkgs[pkgs[i].PkgPath] = sp
		}
	}
	for fn := range ssautil.AllFunctions(prog) {
		var path string
		if fn.Pkg != nil {
			path = fn.Pkg.Pkg.Path()
		} else if fn.Object() != nil && fn.Object().Pkg() != nil {
			path = fn.Object().Pkg().Path()
		} else if fn.Parent() != nil {
			p := fn.Parent()
			for p.Parent() != nil {
				p = p.Parent()
			}
			if p.Pkg != nil {
				path = p.Pkg.Pkg.Path()
			}
		}
		if !inModule(path) {
			continue
		}
		if fn.Synthetic != "" && fn.Parent() == nil {
			// wrappers, bound methods, instantiations: skip unless instantiation
			if !strings.Contains(fn.Synthetic, "instance") {
				continue
			}
		}
		name := shortFuncName(fn)
		if old, ok := w.Funcs[name]; ok && old != fn {
			// keep the one with a body
			if old.Blocks != nil {
				continue
			}
		}
		w.Funcs[name] = fn
	}
	return w, nil
}

func (w *World) sortedFuncNames() []string {
	var ns []string
	for n := range w.Funcs {
		ns = append(ns, n)
	}
	sort.Strings(ns)
	return ns
}

// pkgOf returns the *packages.Package for an import path.
func (w *World) pkgOf(path string) *packages.Package {
	for _, p := range w.Pkgs {
		if p.PkgPath == path {
			return p
		}
	}
	return nil
}

func (w *World) srcLine(pos token.Pos) string {
	if !pos.IsValid() {
		return ""
	}
	p := w.Fset.Position(pos)
	data, err := readFileCached(p.Filename)
	if err != nil {
		return ""
	}
	lines := strings.Split(data, "\n")
	if p.Line-1 < len(lines) {
		return strings.TrimSpace(lines[p.Line-1])
	}
	return ""
}

var fileCache = map[string]string{}

func readFileCached(name string) (string, error) {
	if s, ok := fileCache[name]; ok {
		return s, nil
	}
	b, err := os.ReadFile(name)
	if err != nil {
		return "", err
	}
	fileCache[name] = string(b)
	return string(b), nil
}

// sentinelErr reports whether g is an interface-typed package variable that is assigned exactly
// once, in the package initialiser, from errors.New / fmt.Errorf.
func (w *World) sentinelErr(g *ssa.Global) bool {
	if w.sentinel == nil {
		w.sentinel = map[*ssa.Global]bool{}
		good := map[*ssa.Global]int{}
		bad := map[*ssa.Global]bool{}
		for fn := range ssautil.AllFunctions(w.Prog) {
			if fn.Pkg == nil || !inModule(fn.Pkg.Pkg.Path()) {
				continue
			}
			for _, b := range fn.Blocks {
				for _, ins := range b.Instrs {
					st, ok := ins.(*ssa.Store)
					if !ok {
						continue
					}
					gg, ok := st.Addr.(*ssa.Global)
					if !ok {
						continue
					}
					okInit := false
					if fn.Name() == "init" && fn.Signature.Recv() == nil {
						if c, ok := st.Val.(*ssa.Call); ok {
							if callee := c.Call.StaticCallee(); callee != nil {
								switch callee.String() {
								case "errors.New", "fmt.Errorf":
									okInit = true
								}
							}
						}
					}
					if okInit {
						good[gg]++
					} else {
						bad[gg] = true
					}
				}
			}
		}
		for gg, n := range good {
			if n == 1 && !bad[gg] {
				w.sentinel[gg] = true
			}
		}
	}
	return w.sentinel[g]
}

package main

import (
	"bytes"
	"context"
	"encoding/json"
	"os"
	"os/exec"
	"path/filepath"
	"regexp"
	"strings"
	"time"
)

// A replay driver is an in-package Go test (under /verif/replay) that drives the real code into
// the situation an obligation describes and fails with "VIOLATION-CONFIRMED" when the real code
// misbehaves. Drivers are injected with go test -overlay; nothing is written into /repo.
type replayDriver struct {
	Obligation string `json:"obligation_regex"`
	TestFile   string `json:"test_file"`
	Run        string `json:"run"`
	Pkg        string `json:"pkg"` // directory relative to the repo root ("." default)
	What       string `json:"what"`
}

func loadDrivers() []replayDriver {
	var ds []replayDriver
	b, err := os.ReadFile(filepath.Join(verifDir(), "replay", "registry.json"))
	if err == nil {
		json.Unmarshal(b, &ds)
	}
	return ds
}

// replayModel tries to replay a failed obligation on the real code. Returns (confirmed, info).
func replayModel(r *SolveResult, repo string) (bool, map[string]any) {
	for _, d := range loadDrivers() {
		re, err := regexp.Compile(d.Obligation)
		if err != nil || !re.MatchString(r.Obl.Name) {
			continue
		}
		ok, out := runDriver(d, repo)
		info := map[string]any{"driver": d.TestFile, "run": d.Run, "what": d.What, "output": truncate2(out, 6000),
			"cmd": "go test -tags verif -overlay <ov.json> -vet=off -count=1 -timeout 120s -run " + d.Run + " ./" + d.Pkg}
		return ok, info
	}
	return false, nil
}

func runDriver(d replayDriver, repo string) (bool, string) {
	dir, err := os.MkdirTemp("", "gocv-replay")
	if err != nil {
		return false, err.Error()
	}
	defer os.RemoveAll(dir)
	pkg := d.Pkg
	if pkg == "" {
		pkg = "."
	}
	target := filepath.Join(repo, pkg, "zz_verif_replay_test.go")
	ov := map[string]any{"Replace": map[string]string{target: filepath.Join(verifDir(), "replay", d.TestFile)}}
	b, _ := json.Marshal(ov)
	ovf := filepath.Join(dir, "ov.json")
	os.WriteFile(ovf, b, 0o644)
	ctx, cancel := context.WithTimeout(context.Background(), 8*time.Minute)
	defer cancel()
	cmd := exec.CommandContext(ctx, "go", "test", "-tags", "verif", "-overlay", ovf, "-vet=off", "-count=1", "-timeout", "120s", "-run", "^"+d.Run+"$", "./"+pkg)
	cmd.Dir = repo
	cmd.Env = append(os.Environ(), "GOFLAGS=-mod=mod", "GOPROXY=off")
	var out bytes.Buffer
	cmd.Stdout = &out
	cmd.Stderr = &out
	cmd.Run()
	s := out.String()
	return strings.Contains(s, "VIOLATION-CONFIRMED"), s
}

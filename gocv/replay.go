package main

// replayModel tries to turn a solver model into a concrete input and run it on the real code.
// Returns (confirmed, info).
func replayModel(r *SolveResult, repo string) (bool, map[string]any) {
	return false, nil
}

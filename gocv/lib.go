package main

import (
	"fmt"
	"go/token"
	"go/types"
	"strings"

	"golang.org/x/tools/go/ssa"
)

// libModel gives built-in semantics to library functions (and a few in-module helpers).
func (e *Enc) libModel(fr *Frame, full string, callee *ssa.Function, args []Val, resType types.Type, pos token.Pos, cur *pathState, instr ssa.Instruction) (Val, bool) {
	unit := Val{T: "unit", S: "Unit"}
	switch full {
	case "time.Now":
		c := e.clockComp()
		n := e.fresh("now")
		e.declare(n, "Int")
		e.assume(fmt.Sprintf("(and (>= %s %s) (> %s 0))", n, e.get(cur.st, c), n))
		e.set(cur.st, c, n)
		return Val{T: n, S: "Int"}, true
	case "time.Since":
		c := e.clockComp()
		n := e.fresh("now")
		e.declare(n, "Int")
		e.assume(fmt.Sprintf("(and (>= %s %s) (> %s 0))", n, e.get(cur.st, c), n))
		e.set(cur.st, c, n)
		return Val{T: "(- " + n + " " + args[0].T + ")", S: "Int"}, true
	case "(time.Time).Add":
		return Val{T: "(+ " + args[0].T + " " + args[1].T + ")", S: "Int"}, true
	case "(time.Time).Sub":
		return Val{T: "(- " + args[0].T + " " + args[1].T + ")", S: "Int"}, true
	case "(time.Time).Before":
		return Val{T: "(< " + args[0].T + " " + args[1].T + ")", S: "Bool"}, true
	case "(time.Time).After":
		return Val{T: "(> " + args[0].T + " " + args[1].T + ")", S: "Bool"}, true
	case "(time.Time).Equal":
		return Val{T: "(= " + args[0].T + " " + args[1].T + ")", S: "Bool"}, true
	case "(time.Time).IsZero":
		return Val{T: "(= " + args[0].T + " 0)", S: "Bool"}, true
	case "(time.Time).Compare":
		return Val{T: fmt.Sprintf("(ite (< %s %s) (- 1) (ite (> %s %s) 1 0))", args[0].T, args[1].T, args[0].T, args[1].T), S: "Int"}, true
	case "(time.Time).UnixNano":
		return Val{T: args[0].T, S: "Int"}, true
	case "(time.Duration).Seconds":
		return Val{T: "(/ (to_real " + args[0].T + ") 1000000000.0)", S: "Real"}, true
	case "(time.Duration).Milliseconds":
		return Val{T: "(gdiv " + args[0].T + " 1000000)", S: "Int"}, true
	case "(time.Duration).Nanoseconds":
		return Val{T: args[0].T, S: "Int"}, true
	case "(*sync.Mutex).Lock", "(*sync.RWMutex).Lock", "(*sync.RWMutex).RLock":
		e.monitorLock(fr, args[0], cur, pos)
		return unit, true
	case "(*sync.Mutex).Unlock", "(*sync.RWMutex).Unlock", "(*sync.RWMutex).RUnlock":
		e.monitorUnlock(fr, args[0], cur, pos)
		return unit, true
	case "(*sync.Cond).Wait":
		e.condWait(fr, args[0], cur, pos)
		return unit, true
	case "(*sync.Cond).Signal", "(*sync.Cond).Broadcast":
		e.condNotify(fr, args[0], cur, pos, callee.Name())
		return unit, true
	case "(*sync.Once).Do", "(*sync.WaitGroup).Add", "(*sync.WaitGroup).Done", "(*sync.WaitGroup).Wait":
		if full == "(*sync.Once).Do" {
			e.note("sync.Once.Do: the function argument is not executed in the model (trusted to run at most once)")
		}
		return unit, true
	case "(encoding/binary.bigEndian).Uint64":
		b := args[1]
		e.safety(fr, cur, "bounds", pos, "(>= (s_len "+b.T+") 8)", instr)
		c := e.sliceComp(types.Typ[types.Uint8])
		e.ufun("be64", []string{"(Array Int Int)", "Int"}, "Int")
		n := e.defineFresh("be64v", "Int", fmt.Sprintf("(be64 (select %s (s_arr %s)) (s_off %s))", e.get(cur.st, c), b.T, b.T))
		e.assume(fmt.Sprintf("(and (>= %s 0) (< %s 18446744073709551616))", n, n))
		return Val{T: n, S: "Int"}, true
	case "(encoding/binary.bigEndian).PutUint64":
		b := args[1]
		e.safety(fr, cur, "bounds", pos, "(>= (s_len "+b.T+") 8)", instr)
		c := e.sliceComp(types.Typ[types.Uint8])
		e.ufun("be64", []string{"(Array Int Int)", "Int"}, "Int")
		old := e.get(cur.st, c)
		na := e.fresh("putarr")
		e.declare(na, "(Array Int Int)")
		e.assume(fmt.Sprintf("(= (be64 %s (s_off %s)) %s)", na, b.T, args[2].T))
		e.assume(fmt.Sprintf("(forall ((i Int)) (! (=> (or (< i (s_off %s)) (>= i (+ (s_off %s) 8))) (= (select %s i) (select (select %s (s_arr %s)) i))) :pattern ((select %s i))))", b.T, b.T, na, old, b.T, na))
		e.set(cur.st, c, store(old, "(s_arr "+b.T+")", na))
		return unit, true
	case "context.WithCancel", "context.WithTimeout", "context.WithDeadline":
		e.note("context derivation: child context is an arbitrary context (cancellation propagation not modelled)")
		return Val{}, false
	case "bytes.Equal":
		a, b := args[0], args[1]
		c := e.sliceComp(types.Typ[types.Uint8])
		e.ufun("str_of_bytes", []string{"(Array Int Int)", "Int", "Int"}, "Str")
		sa := fmt.Sprintf("(str_of_bytes (select %s (s_arr %s)) (s_off %s) (s_len %s))", e.get(cur.st, c), a.T, a.T, a.T)
		sb := fmt.Sprintf("(str_of_bytes (select %s (s_arr %s)) (s_off %s) (s_len %s))", e.get(cur.st, c), b.T, b.T, b.T)
		return Val{T: fmt.Sprintf("(and (= (s_len %s) (s_len %s)) (or (= (s_len %s) 0) (= %s %s)))", a.T, b.T, a.T, sa, sb), S: "Bool"}, true
	case "fmt.Errorf", "errors.New":
		v := e.freshVal("newerr", resType, cur)
		e.assume(not(eq(v.T, "nilI")))
		e.countCall(cur, full, args)
		return v, true
	case "(github.com/libp2p/go-libp2p/core/peer.ID).String":
		e.hdrOnce("peerstr", `(declare-fun peer_str (Str) Str)
(declare-fun peer_str_inv (Str) Str)
(assert (forall ((x Str)) (! (= (peer_str_inv (peer_str x)) x) :pattern ((peer_str x)))))`)
		e.note("peer.ID.String is a deterministic injective function of the peer ID")
		return Val{T: "(peer_str " + args[0].T + ")", S: "Str"}, true
	case "github.com/gogo/protobuf/proto.String", "github.com/gogo/protobuf/proto.Bool", "github.com/gogo/protobuf/proto.Uint64",
		"github.com/gogo/protobuf/proto.Int32", "github.com/gogo/protobuf/proto.Int64", "github.com/gogo/protobuf/proto.Uint32":
		// proto.X(v) returns a pointer to a fresh variable holding v
		pt, ok := resType.Underlying().(*types.Pointer)
		if !ok {
			return Val{}, false
		}
		r := e.newObject(cur, "protoval")
		c := e.cellComp(pt.Elem())
		e.set(cur.st, c, store(e.get(cur.st, c), r, args[0].T))
		return Val{T: r, S: "Ref", Typ: resType}, true
	case "sort.Slice", "sort.SliceStable":
		// the slice's elements are permuted in place; the less function may be called any number of times
		var cc *ssa.CallCommon
		if c, ok := instr.(*ssa.Call); ok {
			cc = &c.Call
		}
		if cc == nil || len(cc.Args) < 1 {
			return Val{}, false
		}
		mi, ok := cc.Args[0].(*ssa.MakeInterface)
		if !ok {
			return Val{}, false
		}
		sl, ok := mi.X.Type().Underlying().(*types.Slice)
		if !ok {
			return Val{}, false
		}
		sv := e.val(fr, mi.X)
		fr.callIdx["sort.Slice"]++
		if e.forgotten(fr, "sort.Slice", "permutation") {
			// the caller does not use the order or content of the sorted slice: arbitrary elements
			c := e.sliceComp(sl.Elem())
			old := e.get(cur.st, c)
			na := e.fresh("sortarr")
			e.declare(na, "(Array Int "+e.sortOf(sl.Elem())+")")
			e.set(cur.st, c, ite(eq("(s_arr "+sv.T+")", "nil"), old, store(old, "(s_arr "+sv.T+")", na)))
		} else {
			e.permuteSlice(sv.T, sl.Elem(), cur)
		}
		e.externalClosureArgs(fr, full, e.closureArgsOf(fr, instr, args), cur)
		e.countCall(cur, shortFuncName(callee), args)
		return unit, true
	case "sort.Strings":
		e.permuteSlice(args[0].T, types.Typ[types.String], cur)
		e.countCall(cur, shortFuncName(callee), args)
		return unit, true
	case "github.com/libp2p/go-msgio.NewVarintReaderSize", "github.com/libp2p/go-msgio.NewVarintReader", "github.com/libp2p/go-msgio/protoio.NewDelimitedWriter":
		v := e.freshResult(resType, cur, "rdr")
		if v.S == "Iface" {
			e.assume(not(eq(v.T, "nilI")))
		}
		e.note("constructor " + full + " returns a non-nil value (assumed contract of the dependency)")
		e.countCall(cur, shortFuncName(callee), args)
		return markExt(v), true
	case "time.NewTicker", "time.NewTimer":
		// a new ticker/timer object: non-nil and distinct from every object allocated so far
		if e.sortOf(resType) != "Ref" {
			break
		}
		tn := e.fresh("tick")
		e.declare(tn, "Ref")
		a := e.allocComp()
		afact, anext := allocNew(e.get(cur.st, a), tn)
		e.assume(and(not(eq(tn, "nil")), afact))
		e.set(cur.st, a, anext)
		e.countCall(cur, shortFuncName(callee), args)
		return Val{T: tn, S: "Ref", Typ: resType}, true
	case "github.com/libp2p/go-libp2p/core/peerstore.GetCertifiedAddrBook":
		// (cab, ok): ok implies a non-nil address book (assumed contract of the dependency)
		v := e.freshResult(resType, cur, "cab")
		if len(v.Tup) == 2 && v.Tup[0].S == "Iface" {
			e.assume(implies(v.Tup[1].T, not(eq(v.Tup[0].T, "nilI"))))
		}
		e.countCall(cur, shortFuncName(callee), args)
		return markExt(v), true
	case "math/rand.Intn", "math/rand.Int63n", "math/rand.Int31n":
		e.safety(fr, cur, "randn", pos, "(> "+args[0].T+" 0)", instr)
		v := e.freshVal("rnd", types.Typ[types.Int], cur)
		e.assume(fmt.Sprintf("(and (>= %s 0) (< %s %s))", v.T, v.T, args[0].T))
		return v, true
	case "math/rand.Float64":
		v := e.freshVal("rndf", types.Typ[types.Float64], cur)
		e.assume(fmt.Sprintf("(and (>= %s 0.0) (< %s 1.0))", v.T, v.T))
		return v, true
	case "math.Sqrt":
		e.ufun("rsqrt", []string{"Real"}, "Real")
		n := e.defineFresh("sqrtv", "Real", "(rsqrt "+args[0].T+")")
		e.assume(fmt.Sprintf("(=> (>= %s 0.0) (and (>= %s 0.0) (= (* %s %s) %s)))", args[0].T, n, n, n, args[0].T))
		return Val{T: n, S: "Real"}, true
	case "math.IsNaN", "math.IsInf":
		e.note("float64 modelled as real: IsNaN/IsInf are false")
		return Val{T: "false", S: "Bool"}, true
	case "math.Ceil":
		return Val{T: fmt.Sprintf("(ite (is_int %s) %s (to_real (+ (to_int %s) 1)))", args[0].T, args[0].T, args[0].T), S: "Real"}, true
	case "math.Floor":
		return Val{T: fmt.Sprintf("(to_real (to_int %s))", args[0].T), S: "Real"}, true
	case "math.Min":
		return Val{T: "(rmin " + args[0].T + " " + args[1].T + ")", S: "Real"}, true
	case "math.Max":
		return Val{T: "(rmax " + args[0].T + " " + args[1].T + ")", S: "Real"}, true
	}
	return Val{}, false
}

// permuteSlice: the elements of slice s (in its window) are replaced by a permutation of
// themselves; everything outside the window is unchanged.
func (e *Enc) permuteSlice(s string, elem types.Type, cur *pathState) {
	c := e.sliceComp(elem)
	es := e.sortOf(elem)
	old := e.get(cur.st, c)
	na := e.fresh("permarr")
	e.declare(na, "(Array Int "+es+")")
	pf, pi := e.fresh("perm"), e.fresh("perminv")
	e.hdrOnce(pf, fmt.Sprintf("(declare-fun %s (Int) Int)", pf))
	e.hdrOnce(pi, fmt.Sprintf("(declare-fun %s (Int) Int)", pi))
	oa := e.fresh("permold")
	e.declare(oa, "(Array Int "+es+")")
	e.assume(eq(oa, sel(old, "(s_arr "+s+")")))
	lo := e.fresh("permoff")
	e.declare(lo, "Int")
	e.assume(eq(lo, "(s_off "+s+")"))
	hi := "(+ " + lo + " (s_len " + s + "))"
	ln := e.fresh("permlen")
	e.declare(ln, "Int")
	e.assume(eq(ln, "(s_len "+s+")"))
	e.assume(fmt.Sprintf("(forall ((i Int)) (! (=> (or (< i %s) (>= i %s)) (= (select %s i) (select %s i))) :pattern ((select %s i))))", lo, hi, na, oa, na))
	// relative indices through sidx, so that facts stated about s[j] are found by E-matching
	e.assume(fmt.Sprintf("(forall ((i Int)) (! (=> (and (>= i 0) (< i %s)) (and (>= (%s i) 0) (< (%s i) %s) (= (%s (%s i)) i) (= (select %s (sidx %s i)) (select %s (sidx %s (%s i)))))) :pattern ((select %s (sidx %s i)))))", ln, pf, pf, ln, pi, pf, na, lo, oa, lo, pf, na, lo))
	e.assume(fmt.Sprintf("(forall ((i Int)) (! (=> (and (>= i 0) (< i %s)) (and (>= (%s i) 0) (< (%s i) %s) (= (%s (%s i)) i) (= (select %s (sidx %s i)) (select %s (sidx %s (%s i)))))) :pattern ((select %s (sidx %s i)))))", ln, pi, pi, ln, pf, pi, oa, lo, na, lo, pi, oa, lo))
	e.set(cur.st, c, ite(eq("(s_arr "+s+")", "nil"), old, store(old, "(s_arr "+s+")", na)))
}

// ifaceModel: methods of well-known external interfaces.
func (e *Enc) ifaceModel(fr *Frame, full string, recv Val, args []Val, resType types.Type, cur *pathState) (Val, bool) {
	switch full {
	case "context.Context.Done":
		e.declCtxDone()
		return Val{T: "(ctx_done_chan " + recv.T + ")", S: "Ref", CtxOf: recv.T, Ext: true}, true
	case "context.Context.Err":
		done := e.ctxDone(recv.T, cur)
		v := e.freshVal("ctxerr", resType, cur)
		e.assume(eq(not(eq(v.T, "nilI")), done))
		return v, true
	case "error.Error":
		return e.freshVal("errstr", resType, cur), true
	case "host.Host.Peerstore", "host.Host.Network", "host.Host.ConnManager", "host.Host.Mux", "network.Stream.Conn", "host.Host.EventBus":
		// accessors of the libp2p host/stream never return a nil interface (assumed contract of the dependency)
		v := e.freshVal("acc", resType, cur)
		if v.S == "Iface" {
			e.assume(not(eq(v.T, "nilI")))
		}
		e.note("libp2p accessor " + full + " returns a non-nil interface (assumed contract of the dependency)")
		e.countCall(cur, shortIfaceName(full), append([]Val{recv}, args...))
		return markExt(v), true
	case "sync.Locker.Lock", "sync.Locker.Unlock":
		e.note("sync.Locker.Lock/Unlock through the interface are not tied to a monitor (the callers pass the owning cache's mutex)")
		return Val{T: "unit", S: "Unit"}, true
	}
	return Val{}, false
}

func (e *Enc) declCtxDone() bool {
	e.ufun("ctx_done_chan", []string{"Iface"}, "Ref")
	return true
}

// ---------- monitors ----------

// monitorFor finds the monitor declared for the mutex whose address is mu (a sub-address term
// "(sub_S_field owner)").
func (e *Enc) monitorFor(mu Val) (*Monitor, string) {
	for _, m := range e.cs.Monitors {
		if mu.SubKey == "sub_"+e.monName(m)+"_"+sanitize(m.Mutex) {
			return m, mu.SubOwner
		}
	}
	return nil, ""
}

func (e *Enc) monitorForCond(cond Val) (*Monitor, string) {
	for _, m := range e.cs.Monitors {
		for _, c := range m.Conds {
			if cond.SubKey == "sub_"+e.monName(m)+"_"+sanitize(c) {
				return m, cond.SubOwner
			}
		}
	}
	return nil, ""
}

func (e *Enc) monName(m *Monitor) string {
	if t := e.monitorStructType(m); t != nil {
		return e.structName(t)
	}
	return sanitize(m.Struct)
}

func (e *Enc) monitorStructType(m *Monitor) types.Type {
	return e.resolveGoType(m.Struct, m.Pkg, token.NoPos)
}

// protectedComps lists the components of the fields a monitor protects.
func (e *Enc) protectedComps(m *Monitor) []*Comp {
	t := e.monitorStructType(m)
	if t == nil {
		return nil
	}
	var out []*Comp
	for _, p := range m.Protects {
		cur := t
		elems := false
		mapc := false
		if strings.HasPrefix(p, "all(") && strings.HasSuffix(p, ")") {
			// all(T): every field of struct type T (of any object)
			if st := e.resolveGoType(p[4:len(p)-1], m.Pkg, token.NoPos); st != nil {
				var comps []*Comp
				var refs []string
				if _, ok := st.Underlying().(*types.Struct); ok {
					e.collectStructComps(st, "nil", &comps, &refs)
					out = append(out, comps...)
				}
			}
			continue
		}
		if strings.HasPrefix(p, "allmaps(") && strings.HasSuffix(p, ")") {
			if mt0 := e.resolveGoType(p[8:len(p)-1], m.Pkg, token.NoPos); mt0 != nil {
				if mt, ok := mt0.Underlying().(*types.Map); ok {
					d, v, l := e.mapComps(mt)
					out = append(out, d, v, l)
				}
			}
			continue
		}
		if strings.HasPrefix(p, "elems(") && strings.HasSuffix(p, ")") {
			elems = true
			p = p[6 : len(p)-1]
		}
		if strings.HasPrefix(p, "map(") && strings.HasSuffix(p, ")") {
			mapc = true
			p = p[4 : len(p)-1]
		}
		parts := strings.Split(p, ".")
		for i, part := range parts {
			u, ok := cur.Underlying().(*types.Struct)
			if !ok {
				break
			}
			for j := 0; j < u.NumFields(); j++ {
				if u.Field(j).Name() == part {
					if i == len(parts)-1 {
						if mapc {
							if mt, ok := u.Field(j).Type().Underlying().(*types.Map); ok {
								d, v, l := e.mapComps(mt)
								out = append(out, d, v, l)
							}
						} else if elems {
							if sl, ok := u.Field(j).Type().Underlying().(*types.Slice); ok {
								out = append(out, e.sliceComp(sl.Elem()))
							}
						} else if isObjStruct(u.Field(j).Type()) {
							var comps []*Comp
							var refs []string
							e.collectStructComps(u.Field(j).Type(), "nil", &comps, &refs)
							out = append(out, comps...)
						} else {
							out = append(out, e.fieldComp(cur, j))
						}
					} else {
						cur = u.Field(j).Type()
					}
					break
				}
			}
		}
	}
	for _, g := range m.Ghosts {
		if c := e.ghostComp(g); c != nil {
			out = append(out, c)
		}
	}
	return out
}

func (e *Enc) monitorInv(m *Monitor, owner string, st *St) []string {
	t := e.monitorStructType(m)
	var out []string
	for _, c := range m.Inv {
		ctx := &SpecCtx{e: e, pkg: m.Pkg, params: map[string]SV{"self": {T: owner, Sort: "Ref", Typ: types.NewPointer(t)}}, cur: st, old: st}
		sv, err := e.evalSpec(c.Expr, ctx)
		if err != nil {
			e.errorf("monitor %s.%s invariant: %v", m.Struct, m.Mutex, err)
			continue
		}
		out = append(out, sv.T)
	}
	return out
}

func (e *Enc) monitorLock(fr *Frame, mu Val, cur *pathState, pos token.Pos) {
	h := e.heldComp()
	m, owner := e.monitorFor(mu)
	if m != nil {
		// other threads may have changed the protected state: havoc, then assume the invariant
		for _, c := range e.protectedComps(m) {
			old := e.get(cur.st, c)
			n := e.havocComp(cur.st, c, "")
			// only the owner's slots are protected by this mutex instance... but other instances
			// are protected by their own mutex, which we do not hold either: havoc all slots
			_ = old
			_ = n
		}
		ms := newModSet()
		for _, c := range e.protectedComps(m) {
			ms.add(c.Fam)
		}
		e.linkMapFacts(cur.st, ms)
		e.assumeClosed(cur.st, e.protectedComps(m))
		for _, inv := range e.monitorInv(m, owner, cur.st) {
			e.assumeIf(cur.reach, inv)
		}
		e.snapshotLin(cur)
	}
	e.set(cur.st, h, store(e.get(cur.st, h), mu.T, "true"))
}

func (e *Enc) monitorUnlock(fr *Frame, mu Val, cur *pathState, pos token.Pos) {
	h := e.heldComp()
	m, owner := e.monitorFor(mu)
	if m != nil {
		for i, inv := range e.monitorInv(m, owner, cur.st) {
			lbl := m.Inv[i].Label
			if lbl == "" {
				lbl = fmt.Sprint(i + 1)
			}
			e.addObl("monitor", fmt.Sprintf("%s%s.%s:%s@unlock", e.framePrefix(fr), m.Struct, m.Mutex, lbl), cur.reach, inv, pos, m.Inv[i].Text)
		}
	}
	e.set(cur.st, h, store(e.get(cur.st, h), mu.T, "false"))
}

func (e *Enc) condWait(fr *Frame, cond Val, cur *pathState, pos token.Pos) {
	m, owner := e.monitorForCond(cond)
	if m == nil {
		e.note("Cond.Wait on a condition variable without a declared monitor: treated as skip")
		return
	}
	for i, inv := range e.monitorInv(m, owner, cur.st) {
		lbl := m.Inv[i].Label
		if lbl == "" {
			lbl = fmt.Sprint(i + 1)
		}
		e.addObl("monitor", fmt.Sprintf("%s%s.%s:%s@wait", e.framePrefix(fr), m.Struct, m.Mutex, lbl), cur.reach, inv, pos, m.Inv[i].Text)
	}
	ms := newModSet()
	for _, c := range e.protectedComps(m) {
		e.havocComp(cur.st, c, "")
		ms.add(c.Fam)
	}
	e.linkMapFacts(cur.st, ms)
	e.assumeClosed(cur.st, e.protectedComps(m))
	// context cancellation may happen while waiting (monotone)
	cd := e.comp("ctxdone", "(Array Iface Bool)", "ghost", "G:ctxdone")
	old := e.get(cur.st, cd)
	n := e.havocComp(cur.st, cd, "")
	e.assume(fmt.Sprintf("(forall ((c Iface)) (! (=> (select %s c) (select %s c)) :pattern ((select %s c))))", old, n, n))
	for _, inv := range e.monitorInv(m, owner, cur.st) {
		e.assumeIf(cur.reach, inv)
	}
	e.snapshotLin(cur)
}

func (e *Enc) condNotify(fr *Frame, cond Val, cur *pathState, pos token.Pos, what string) {
	m, owner := e.monitorForCond(cond)
	e.countCall(cur, "Cond."+what, nil)
	if m == nil {
		return
	}
	t := e.monitorStructType(m)
	mu := ""
	u := t.Underlying().(*types.Struct)
	for i := 0; i < u.NumFields(); i++ {
		if u.Field(i).Name() == m.Mutex {
			mu = e.subAddr(t, i, owner)
		}
	}
	if mu == "" {
		return
	}
	field := ""
	for _, c := range m.Conds {
		if cond.SubKey == "sub_"+e.monName(m)+"_"+sanitize(c) {
			field = c
		}
	}
	e.addObl("held", fmt.Sprintf("%s%s.%s:%s.%s", e.framePrefix(fr), m.Struct, m.Mutex, field, what), cur.reach, sel(e.get(cur.st, e.heldComp()), mu), pos,
		"condition variable "+field+" must be notified while holding "+m.Mutex+" (no lost wake-up)")
	// record the notification in a ghost counter per cond field
	c := e.comp("notified_"+e.monName(m)+"_"+sanitize(field), "(Array Ref Int)", "ghost", "G:notified")
	e.set(cur.st, c, store(e.get(cur.st, c), owner, "(+ "+sel(e.get(cur.st, c), owner)+" 1)"))
}

// checkProtected: an access to a field protected by a monitor needs the lock.
func (e *Enc) checkProtected(fr *Frame, cur *pathState, st types.Type, field int, base string, pos token.Pos) {
	if len(e.cs.Monitors) == 0 {
		return
	}
	sn := e.structName(st)
	u := st.Underlying().(*types.Struct)
	fname := u.Field(field).Name()
	for _, m := range e.cs.Monitors {
		if e.monName(m) != sn {
			continue
		}
		for _, p := range m.Protects {
			if p == fname {
				if e.topContract != nil && e.topContract.Trusted {
					return
				}
				// constructor exemption: freshly allocated objects are not shared yet
				mu := ""
				for i := 0; i < u.NumFields(); i++ {
					if u.Field(i).Name() == m.Mutex {
						mu = e.subAddr(st, i, base)
					}
				}
				a0 := e.get(fr.topEntry(), e.allocComp())
				goal := or(sel(e.get(cur.st, e.heldComp()), mu), not(isAlloc(a0, base)))
				e.addObl("held", fmt.Sprintf("%s%s.%s:access:%s", e.framePrefix(fr), m.Struct, m.Mutex, fname), cur.reach, goal, pos, "field "+fname+" is accessed only while holding "+m.Mutex)
			}
		}
	}
}

func (fr *Frame) topEntry() *St {
	f := fr
	for f.caller != nil {
		f = f.caller
	}
	return f.entry
}

// snapshotLin records the linearisation-point state (last lock acquisition / wait return):
// lin(e) in a postcondition evaluates e there.
func (e *Enc) snapshotLin(cur *pathState) {
	for _, name := range append([]string{}, e.compOrder...) {
		c := e.comps[name]
		if c.Kind == "local" || strings.HasPrefix(c.Name, "lin$") {
			continue
		}
		lc := e.comp("lin$"+c.Name, c.Sort, "local", "LIN")
		lc.Zero = c.Name + ".0"
		cur.st.v[lc.Name] = e.get(cur.st, c)
	}
}

func shortIfaceName(full string) string {
	// pkg.Type.Method -> Type.Method
	if j := strings.Index(full, "."); j >= 0 && strings.Count(full, ".") >= 2 {
		return full[j+1:]
	}
	return full
}

package main

import (
	"bytes"
	"context"
	"fmt"
	"os"
	"os/exec"
	"path/filepath"
	"strings"
	"sync"
	"time"
)

type SolveResult struct {
	Retried bool
	Obl     *Obl
	Status  string // proved failed unknown cover-ok cover-vacuous cover-unknown
	Solver  string
	Raw     string
	Model   string
	Seconds float64
	Answers map[string]string
	ToolError string
}

type solverSpec struct {
	name string
	argv func(file string, timeoutS int) []string
}

var solvers = []solverSpec{
	// E-matching only (Boogie-style): far more stable on VC-shaped queries than MBQI
	{"z3-new", func(f string, t int) []string {
		return []string{"z3-new", "smt.mbqi=false", "auto_config=false", fmt.Sprintf("-T:%d", t), f}
	}},
	{"z3-new-mbqi", func(f string, t int) []string { return []string{"z3-new", fmt.Sprintf("-T:%d", t), f} }},
	// shallow instantiation: cuts matching loops (forall-exists postconditions of permuting
	// callees when old and new arrays coincide) that drown the default thresholds
	{"z3-new-shallow", func(f string, t int) []string {
		return []string{"z3-new", "smt.mbqi=false", "auto_config=false", "smt.qi.eager_threshold=4", "smt.qi.lazy_threshold=6", fmt.Sprintf("-T:%d", t), f}
	}},
	// no relevancy filtering: ground terms under an irrelevant ite branch still trigger
	// instantiation (needed e.g. for "score(p) >= threshold" where score is ite(scorer == nil, 0, ...))
	{"z3-new-norel", func(f string, t int) []string {
		return []string{"z3-new", "smt.mbqi=false", "auto_config=false", "smt.relevancy=0", fmt.Sprintf("-T:%d", t), f}
	}},
	{"z3-new-s1", func(f string, t int) []string {
		return []string{"z3-new", "smt.mbqi=false", "auto_config=false", "smt.random_seed=1", "sat.random_seed=1", fmt.Sprintf("-T:%d", t), f}
	}},
	{"z3-new-s4", func(f string, t int) []string {
		return []string{"z3-new", "smt.mbqi=false", "auto_config=false", "smt.random_seed=4", "sat.random_seed=4", fmt.Sprintf("-T:%d", t), f}
	}},
	{"z3-new-s7", func(f string, t int) []string {
		return []string{"z3-new", "smt.mbqi=false", "auto_config=false", "smt.random_seed=7", "sat.random_seed=7", fmt.Sprintf("-T:%d", t), f}
	}},
	{"cvc5", func(f string, t int) []string {
		return []string{"cvc5", "--lang=smt2", fmt.Sprintf("--tlimit=%d", t*1000), "--produce-models", f}
	}},
	{"z3", func(f string, t int) []string {
		return []string{"z3", "smt.mbqi=false", "auto_config=false", fmt.Sprintf("-T:%d", t), f}
	}},
}

func runSolver(ctx context.Context, s solverSpec, file string, timeoutS int) (string, string) {
	argv := s.argv(file, timeoutS)
	cctx, cancel := context.WithTimeout(ctx, time.Duration(timeoutS+2)*time.Second)
	defer cancel()
	cmd := exec.CommandContext(cctx, argv[0], argv[1:]...)
	var out bytes.Buffer
	cmd.Stdout = &out
	cmd.Stderr = &out
	cmd.Run()
	text := out.String()
	first := ""
	for _, l := range strings.Split(text, "\n") {
		l = strings.TrimSpace(l)
		if l == "sat" || l == "unsat" || l == "unknown" || l == "timeout" {
			first = l
			break
		}
	}
	if first == "" {
		if cctx.Err() != nil {
			first = "timeout"
		} else {
			first = "error"
		}
	}
	if strings.Contains(text, "(error ") && first != "sat" && first != "unsat" {
		first = "error"
	}
	return first, text
}

type solveOpts struct {
	noRetry map[string]bool // obligations recorded as open findings: known to fail, not worth a second try
	timeoutS  int
	workers   int
	crossCheck bool
	dir       string
	keep      bool
}

// solveAll discharges the obligations of one function.
func solveAll(fr *FuncResult, opts solveOpts) []*SolveResult {
	results := make([]*SolveResult, len(fr.Obls))
	var wg sync.WaitGroup
	sem := make(chan struct{}, opts.workers)
	for i, o := range fr.Obls {
		wg.Add(1)
		sem <- struct{}{}
		go func(i int, o *Obl) {
			defer wg.Done()
			defer func() { <-sem }()
			results[i] = solveOne(fr.Enc, o, opts, i)
		}(i, o)
	}
	wg.Wait()
	// second chance: an obligation that nobody decided within the budget is retried with three
	// times the budget and little parallelism, so that machine load cannot turn a proof that
	// normally takes a second or two into an alarm
	var retry []int
	for i, r := range results {
		if r != nil && !r.Obl.Cover && r.Status == "unknown" && !opts.noRetry[r.Obl.Name] {
			retry = append(retry, i)
		}
	}
	if len(retry) > 0 && len(retry) <= 40 && os.Getenv("GOCV_NORETRY") == "" {
		o2 := opts
		o2.timeoutS = opts.timeoutS * 3
		sem2 := make(chan struct{}, 3)
		var wg2 sync.WaitGroup
		for _, i := range retry {
			wg2.Add(1)
			sem2 <- struct{}{}
			go func(i int) {
				defer wg2.Done()
				defer func() { <-sem2 }()
				first := results[i]
				r := solveOne(fr.Enc, fr.Obls[i], o2, i)
				r.Seconds += first.Seconds
				r.Retried = true
				results[i] = r
			}(i)
		}
		wg2.Wait()
	}
	return results
}

func solveOne(e *Enc, o *Obl, opts solveOpts, idx int) *SolveResult {
	start := time.Now()
	file := filepath.Join(opts.dir, fmt.Sprintf("%s_%d.smt2", sanitize(truncate(o.Name, 80)), idx))
	q := e.query(o, true)
	os.WriteFile(file, []byte(q), 0o644)
	if !opts.keep {
		defer os.Remove(file)
	}
	res := &SolveResult{Obl: o, Answers: map[string]string{}}
	ctx, cancel := context.WithCancel(context.Background())
	defer cancel()
	// stage 1: z3-new alone with a short budget
	quick := opts.timeoutS
	if quick > 2 {
		quick = 2
	}
	if o.Cover {
		// reachability covers: a short budget; "unknown" is accepted (quantified sat is hard)
		ans, raw := runSolver(ctx, solvers[1], file, 2)
		res.Answers[solvers[1].name] = ans
		res.Solver, res.Raw = solvers[1].name, raw
		res.Seconds = time.Since(start).Seconds()
		switch ans {
		case "sat":
			res.Status = "cover-ok"
		case "unsat":
			res.Status = "cover-vacuous"
		default:
			res.Status = "cover-unknown"
		}
		return res
	}
	decided := func(a string) bool { return a == "sat" || a == "unsat" }
	type r struct {
		name, ans, raw string
	}
	ans := "unknown"
	race := func(set []solverSpec, budget int) {
		rctx, rcancel := context.WithCancel(ctx)
		defer rcancel()
		ch := make(chan r, len(set))
		for _, s := range set {
			go func(s solverSpec) {
				a, t := runSolver(rctx, s, file, budget)
				ch <- r{s.name, a, t}
			}(s)
		}
		for range set {
			x := <-ch
			res.Answers[x.name] = x.ans
			if decided(x.ans) && res.Solver == "" {
				res.Solver, res.Raw = x.name, x.raw
				ans = x.ans
				if !opts.crossCheck {
					rcancel()
					return
				}
			} else if decided(x.ans) && res.Solver != "" && x.ans != ans {
				res.Raw += "\nSOLVER DISAGREEMENT: " + x.name + " says " + x.ans
				ans = "unknown"
				res.Solver = "disagreement"
			}
		}
	}
	// stage 1: the two z3-new configurations (E-matching only / default) with a short budget
	race(solvers[:4], quick)
	if res.Solver == "" {
		// stage 2: everything with the full budget
		race(solvers, opts.timeoutS)
	}
	if res.Solver == "" || res.Solver == "disagreement" {
		ans = "unknown"
	}
	nerr := 0
	for _, a := range res.Answers {
		if a == "error" {
			nerr++
		}
	}
	if res.Solver == "" && nerr == len(res.Answers) && nerr > 0 {
		res.ToolError = "every solver rejected the query (malformed SMT): " + o.Name
	}
	res.Seconds = time.Since(start).Seconds()
	switch {
	case o.Cover && ans == "sat":
		res.Status = "cover-ok"
	case o.Cover && ans == "unsat":
		res.Status = "cover-vacuous"
	case o.Cover:
		res.Status = "cover-unknown"
	case ans == "unsat":
		res.Status = "proved"
	case ans == "sat":
		res.Status = "failed"
		res.Model = res.Raw
	default:
		res.Status = "unknown"
		// candidate counterexample from the ground (quantifier-free) part of the context
		gfile := file + ".ground.smt2"
		var gb strings.Builder
		for _, l := range strings.Split(q, "\n") {
			if strings.Contains(l, "(forall ") || strings.Contains(l, "(exists ") {
				if strings.HasPrefix(l, "(assert (not ") && strings.HasSuffix(strings.TrimSpace(l), ")") && !strings.HasPrefix(l, "(assert (not (=") {
					// the negated goal itself: keep
					gb.WriteString(l + "\n")
				}
				continue
			}
			gb.WriteString(l + "\n")
		}
		os.WriteFile(gfile, []byte(gb.String()), 0o644)
		ga, graw := runSolver(context.Background(), solvers[1], gfile, 3)
		if !opts.keep {
			os.Remove(gfile)
		}
		if ga == "sat" {
			res.Model = graw
			res.Raw += "\nCANDIDATE MODEL (ground part of the context only; may be spurious):\n" + truncate2(graw, 12000)
		}
	}
	return res
}

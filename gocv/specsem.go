package main

import (
	"fmt"
	"go/constant"
	"go/token"
	"go/types"
	"strings"

	"golang.org/x/tools/go/ssa"
)

// SV is a typed spec value.
type SV struct {
	T    string
	Sort string
	Typ  types.Type // nil for spec-only sorts
	Pkg  *types.Package // set when the "value" is a package qualifier
	Loc  *Loc           // captured variable of a closure: loaded from the state the clause is evaluated in
	LocalObj bool       // a struct-typed LOCAL variable held as an object: its fields are part of
	                    // the variable's value and are read in the current state, also under old()
}

type SpecCtx struct {
	e       *Enc
	pkg     string    // package path for name resolution
	pos     token.Pos // position for file-scope resolution
	params  map[string]SV
	results []Val
	sig     *types.Signature
	cur     *St
	old     *St
	bound   map[string]SV
	fr      *Frame // for local variable resolution (loop invariants, call-site asserts)
	locals  bool
	fc      *FuncContract
	self    *SV
	depth   int
	loop    *loopInfo
	iter    *St // state at the start of the current loop iteration (step clauses)
	localSt *St // state in which local variables are read (always the current one, also under old())
}

func (c *SpecCtx) withState(st *St) *SpecCtx {
	n := *c
	n.cur = st
	return &n
}

func (c *SpecCtx) bind(name string, v SV) *SpecCtx {
	n := *c
	n.bound = map[string]SV{}
	for k, x := range c.bound {
		n.bound[k] = x
	}
	n.bound[name] = v
	return &n
}

// evalClause evaluates a clause of the function executing in fr.
func (e *Enc) evalClause(fr *Frame, c *Clause, cur, old *St, extra map[string]SV, locals bool) (string, error) {
	ctx := e.frameCtx(fr, cur, old, locals)
	if c.Loop > 0 {
		for _, li := range fr.loops {
			if li.ord == c.Loop {
				ctx.loop = li
			}
		}
		// iter(e) in the invariant of an inner loop: e at the start of the current iteration of
		// the innermost enclosing loop
		if ctx.loop != nil {
			var parent *loopInfo
			for _, li := range fr.loops {
				if li != ctx.loop && li.blocks[ctx.loop.head] && li.headSt != nil {
					if parent == nil || len(li.blocks) < len(parent.blocks) {
						parent = li
					}
				}
			}
			if parent != nil {
				ctx.iter = parent.headSt
			}
		}
	}
	if c.Loop == 0 && ctx.iter == nil && fr.curBlock != nil {
		// call-site clause inside a loop body: iter(e) is e at the start of the current iteration
		// of the innermost loop around the call
		var in *loopInfo
		for _, li := range fr.loops {
			if li.blocks[fr.curBlock] && li.headSt != nil {
				if in == nil || len(li.blocks) < len(in.blocks) {
					in = li
				}
			}
		}
		if in != nil {
			ctx.iter = in.headSt
		}
	}
	for k, v := range extra {
		ctx.params[k] = v
	}
	sv, err := e.evalSpec(c.Expr, ctx)
	if err != nil {
		return "", err
	}
	if sv.Sort != "Bool" {
		return "", fmt.Errorf("clause %q is not boolean (%s)", c.Text, sv.Sort)
	}
	return sv.T, nil
}

func (e *Enc) frameCtx(fr *Frame, cur, old *St, locals bool) *SpecCtx {
	env := map[string]SV{}
	for i, p := range fr.fn.Params {
		if i < len(fr.params) {
			env[p.Name()] = SV{T: fr.params[i].T, Sort: fr.params[i].S, Typ: p.Type()}
		}
	}
	for i, fv := range fr.fn.FreeVars {
		if i < len(fr.binds) {
			// free variables are pointers to the captured cells; expose the cell content by name
			env["&"+fv.Name()] = SV{T: fr.binds[i].T, Sort: "Ref", Typ: fv.Type()}
		}
	}
	pkg := modPath
	root := fr.fn
	for root.Parent() != nil {
		root = root.Parent()
	}
	if root.Pkg != nil {
		pkg = root.Pkg.Pkg.Path()
	}
	return &SpecCtx{e: e, pkg: pkg, pos: fr.fn.Pos(), params: env, cur: cur, old: old, fr: fr, locals: locals, sig: fr.fn.Signature, fc: fr.contract, localSt: cur}
}

func (e *Enc) typesPkg(path string) *types.Package {
	if p := e.w.pkgOf(path); p != nil {
		return p.Types
	}
	return nil
}

// specSort resolves a type text to an SMT sort and (if it is a Go type) the types.Type.
func (e *Enc) specSort(text, pkgPath string, pos token.Pos) (string, types.Type) {
	text = strings.TrimSpace(text)
	switch text {
	case "int", "Int":
		return "Int", types.Typ[types.Int]
	case "bool", "Bool":
		return "Bool", types.Typ[types.Bool]
	case "real", "Real", "float64":
		return "Real", types.Typ[types.Float64]
	case "string", "Str":
		return "Str", types.Typ[types.String]
	case "ref", "Ref":
		return "Ref", nil
	case "iface", "Iface":
		return "Iface", nil
	case "time":
		return "Int", nil
	}
	if strings.HasPrefix(text, "mset[") && strings.HasSuffix(text, "]") {
		ks, _ := e.specSort(text[5:len(text)-1], pkgPath, pos)
		return "(Array " + ks + " Bool)", nil
	}
	if strings.HasPrefix(text, "mmap[") {
		cl := matchParen(text, 4)
		ks, _ := e.specSort(text[5:cl], pkgPath, pos)
		vs, _ := e.specSort(text[cl+1:], pkgPath, pos)
		return "(Array " + ks + " " + vs + ")", nil
	}
	t := e.resolveGoType(text, pkgPath, pos)
	if t == nil {
		e.errorf("cannot resolve type %q in %s", text, pkgPath)
		return "Int", nil
	}
	return e.sortOf(t), t
}

func (e *Enc) resolveGoType(text, pkgPath string, pos token.Pos) types.Type {
	pk := e.w.pkgOf(pkgPath)
	if pk == nil {
		return nil
	}
	try := func(p token.Pos) types.Type {
		tv, err := types.Eval(e.w.Fset, pk.Types, p, text)
		if err == nil && tv.IsType() {
			return tv.Type
		}
		return nil
	}
	if pos.IsValid() {
		if t := try(pos); t != nil {
			return t
		}
	}
	for _, f := range pk.Syntax {
		if t := try(f.End() - 1); t != nil {
			return t
		}
		if t := try(f.Package); t != nil {
			return t
		}
	}
	// try with positions inside each file's first declaration (file scope incl. imports)
	for _, f := range pk.Syntax {
		for _, d := range f.Decls {
			if t := try(d.Pos()); t != nil {
				return t
			}
		}
	}
	return nil
}

func (e *Enc) lookupPkgObject(pkgPath, name string) types.Object {
	if tp := e.typesPkg(pkgPath); tp != nil {
		return tp.Scope().Lookup(name)
	}
	return nil
}

// importedPkg finds an imported package by local name from any file of pkgPath.
func (e *Enc) importedPkg(pkgPath, name string) *types.Package {
	pk := e.w.pkgOf(pkgPath)
	if pk == nil {
		return nil
	}
	for _, imp := range pk.Types.Imports() {
		if imp.Name() == name {
			return imp
		}
	}
	// aliases: search file scopes
	for _, f := range pk.Syntax {
		sc := pk.TypesInfo.Scopes[f]
		if sc == nil {
			continue
		}
		if o := sc.Lookup(name); o != nil {
			if pn, ok := o.(*types.PkgName); ok {
				return pn.Imported()
			}
		}
	}
	return nil
}

func (e *Enc) objectValue(obj types.Object, ctx *SpecCtx) (SV, error) {
	switch o := obj.(type) {
	case *types.Const:
		v := o.Val()
		t := o.Type()
		s := e.sortOf(t)
		switch v.Kind() {
		case constant.Bool:
			return SV{T: fmt.Sprint(constant.BoolVal(v)), Sort: "Bool", Typ: t}, nil
		case constant.String:
			return SV{T: e.strConst(constant.StringVal(v)), Sort: "Str", Typ: t}, nil
		case constant.Int:
			if s == "Real" {
				return SV{T: smtReal(v), Sort: "Real", Typ: t}, nil
			}
			return SV{T: smtInt(v.ExactString()), Sort: "Int", Typ: t}, nil
		case constant.Float:
			return SV{T: smtReal(v), Sort: "Real", Typ: t}, nil
		}
	case *types.Var:
		// package-level variable
		if o.Pkg() != nil {
			if sp := e.w.SPkgs[o.Pkg().Path()]; sp != nil {
				if g, ok := sp.Members[o.Name()].(*ssa.Global); ok {
					c := e.globalComp(g)
					return SV{T: e.get(ctx.cur, c), Sort: c.Sort, Typ: o.Type()}, nil
				}
			}
		}
	}
	return SV{}, fmt.Errorf("cannot use object %v in a specification", obj)
}

func (e *Enc) resultNames(ctx *SpecCtx) []string {
	var ns []string
	if ctx.sig != nil {
		rs := ctx.sig.Results()
		for i := 0; i < rs.Len(); i++ {
			ns = append(ns, rs.At(i).Name())
		}
	}
	return ns
}

func (e *Enc) evalIdent(name string, ctx *SpecCtx) (SV, error) {
	if v, ok := ctx.bound[name]; ok {
		return v, nil
	}
	lst := ctx.localSt
	if lst == nil {
		lst = ctx.cur
	}
	if name == "result" && len(ctx.results) >= 1 {
		r := ctx.results[0]
		return SV{T: r.T, Sort: r.S, Typ: r.Typ}, nil
	}
	if strings.HasPrefix(name, "result") && len(name) == 7 && name[6] >= '0' && name[6] <= '9' {
		i := int(name[6] - '0')
		if i < len(ctx.results) {
			r := ctx.results[i]
			return SV{T: r.T, Sort: r.S, Typ: r.Typ}, nil
		}
	}
	if name == "err" && ctx.sig != nil && len(ctx.results) > 0 {
		// last result if it is an error and not otherwise named
		rs := ctx.sig.Results()
		if rs.Len() == len(ctx.results) && rs.Len() > 0 && typeStr(rs.At(rs.Len()-1).Type()) == "error" {
			if _, isParam := ctx.params["err"]; !isParam {
				r := ctx.results[len(ctx.results)-1]
				return SV{T: r.T, Sort: r.S, Typ: r.Typ}, nil
			}
		}
	}
	if len(ctx.results) > 0 {
		for i, n := range e.resultNames(ctx) {
			if n == name && n != "" && n != "_" && i < len(ctx.results) {
				r := ctx.results[i]
				return SV{T: r.T, Sort: r.S, Typ: r.Typ}, nil
			}
		}
	}
	if name == "$count" && ctx.fr != nil && ctx.loop != nil {
		// number of keys the loop's map range has produced so far
		for _, ins := range ctx.loop.head.Instrs {
			if nx, ok := ins.(*ssa.Next); ok {
				if it := ctx.fr.regs[nx.Iter].It; it != nil && it.count != "" {
					return SV{T: e.get(lst, e.comps[it.count]), Sort: "Int"}, nil
				}
			}
		}
		return SV{}, fmt.Errorf("$count: loop is not a map range")
	}
	if name == "$start" && ctx.fr != nil && ctx.loop != nil {
		// key set of the ranged map when the loop's range statement started
		for _, ins := range ctx.loop.head.Instrs {
			if nx, ok := ins.(*ssa.Next); ok {
				if it := ctx.fr.regs[nx.Iter].It; it != nil && it.startDom != "" {
					ks := e.sortOf(it.mapTyp.Key())
					return SV{T: it.startDom, Sort: "(Array " + ks + " Bool)"}, nil
				}
			}
		}
		return SV{}, fmt.Errorf("$start: loop is not a map range")
	}
	if strings.HasPrefix(name, "$visited") && ctx.fr != nil {
		// the visited-set of the map range driving the loop this invariant belongs to
		// ($visited#k: of the k-th loop of the function)
		best := ""
		li := ctx.loop
		if i := strings.Index(name, "#"); i >= 0 {
			k := 0
			fmt.Sscanf(name[i+1:], "%d", &k)
			li = nil
			for _, l := range ctx.fr.loops {
				if l.ord == k {
					li = l
				}
			}
		}
		if li != nil {
			// the Next instruction of the loop head block (or, failing that, of any loop block
			// that is not part of a nested loop)
			var nx *ssa.Next
			for _, ins := range li.head.Instrs {
				if n, ok := ins.(*ssa.Next); ok {
					nx = n
				}
			}
			if nx != nil {
				if r, ok := nx.Iter.(*ssa.Range); ok {
					best = fmt.Sprintf("visited_f%d_%s", ctx.fr.id, r.Name())
				}
			}
		}
		if best == "" {
			for _, cn := range e.compOrder {
				if strings.HasPrefix(cn, fmt.Sprintf("visited_f%d_", ctx.fr.id)) {
					if _, ok := ctx.cur.v[cn]; ok {
						best = cn
					}
				}
			}
		}
		if best != "" && e.comps[best] == nil {
			best = ""
		}
		if best == "" {
			return SV{}, fmt.Errorf("$visited: no active map range")
		}
		c := e.comps[best]
		return SV{T: e.get(ctx.cur, c), Sort: c.Sort}, nil
	}
	if ctx.fr != nil && ctx.fr.caller == nil && ctx.fr.fn.Parent() != nil {
		for i, fv := range ctx.fr.fn.FreeVars {
			if fv.Name() == name && i < len(ctx.fr.binds) {
				if _, isParam := ctx.params[name]; isParam {
					break
				}
				t := fv.Type().Underlying().(*types.Pointer).Elem()
				if isObjStruct(t) {
					return SV{T: ctx.fr.binds[i].T, Sort: "Ref", Typ: fv.Type()}, nil
				}
				loc := e.addrLoc(ctx.fr.binds[i], t)
				return SV{T: e.loadLoc(loc, ctx.cur), Sort: e.sortOf(t), Typ: t}, nil
			}
		}
	}
	if ctx.locals && ctx.fr != nil {
		if sv, ok := e.lookupLocal(ctx.fr, name, lst); ok {
			return sv, nil
		}
	}
	if v, ok := ctx.params[name]; ok {
		if v.Loc != nil {
			return SV{T: e.loadLoc(v.Loc, ctx.cur), Sort: e.sortOf(v.Typ), Typ: v.Typ}, nil
		}
		return v, nil
	}
	if g := e.cs.Ghosts[name]; g != nil {
		c := e.ghostComp(name)
		return SV{T: e.get(ctx.cur, c), Sort: c.Sort}, nil
	}
	if ctx.fr != nil && !ctx.locals {
		// allow locals in ensures when unambiguous (e.g. named results are locals in naive form)
		if sv, ok := e.lookupLocal(ctx.fr, name, lst); ok {
			return sv, nil
		}
	}
	if name == "now" {
		return SV{T: e.get(ctx.cur, e.clockComp()), Sort: "Int"}, nil
	}
	if p := e.importedPkg(ctx.pkg, name); p != nil {
		return SV{Pkg: p}, nil
	}
	if obj := e.lookupPkgObject(ctx.pkg, name); obj != nil {
		return e.objectValue(obj, ctx)
	}
	return SV{}, fmt.Errorf("unknown identifier %q", name)
}

// lookupLocal resolves a source variable name to its current value: the local Alloc with that
// comment. name#k selects the k-th (1-based) alloc of that name in instruction order.
func (e *Enc) lookupLocal(fr *Frame, name string, st *St) (SV, bool) {
	// $up_x: the variable x of the frame that expanded this one in place (for names shadowed by
	// the expanded callee's own locals)
	for strings.HasPrefix(name, "$up_") && fr != nil && fr.caller != nil {
		name = strings.TrimPrefix(name, "$up_")
		fr = fr.caller
	}
	for f := fr; f != nil; f = f.caller {
		if sv, ok := e.lookupLocal1(f, name, st); ok {
			return sv, true
		}
	}
	return SV{}, false
}

func (e *Enc) lookupLocal1(fr *Frame, name string, st *St) (SV, bool) {
	want := 0
	base := name
	if i := strings.Index(name, "#"); i >= 0 {
		fmt.Sscanf(name[i+1:], "%d", &want)
		base = name[:i]
	}
	var cands []*ssa.Alloc
	for _, b := range fr.fn.Blocks {
		for _, ins := range b.Instrs {
			if a, ok := ins.(*ssa.Alloc); ok && a.Comment == base {
				cands = append(cands, a)
			}
		}
	}
	if len(cands) == 0 {
		// captured variable of a closure
		for i, fv := range fr.fn.FreeVars {
			if fv.Name() == base && i < len(fr.binds) {
				t := fv.Type().Underlying().(*types.Pointer).Elem()
				if isObjStruct(t) {
					return SV{T: fr.binds[i].T, Sort: "Ref", Typ: fv.Type()}, true
				}
				loc := e.addrLoc(fr.binds[i], t)
				return SV{T: e.loadLoc(loc, st), Sort: e.sortOf(t), Typ: t}, true
			}
		}
		return SV{}, false
	}
	var a *ssa.Alloc
	if want > 0 {
		if want > len(cands) {
			return SV{}, false
		}
		a = cands[want-1]
	} else {
		// prefer an alloc that has been executed (has a register) and whose block dominates the
		// point of evaluation (same-named variables of sibling scopes are not visible) – the last
		// such alloc wins (innermost scope)
		for _, c := range cands {
			if _, ok := fr.regs[c]; !ok {
				continue
			}
			if fr.curBlock != nil && !fr.evalAtExit && c.Block() != fr.curBlock && !c.Block().Dominates(fr.curBlock) {
				continue
			}
			a = c
		}
		if a == nil {
			return SV{}, false
		}
	}
	r, ok := fr.regs[a]
	if !ok {
		return SV{}, false
	}
	t := a.Type().Underlying().(*types.Pointer).Elem()
	if isObjStruct(t) || isArrayType(t) {
		return SV{T: r.T, Sort: "Ref", Typ: a.Type(), LocalObj: isObjStruct(t) && !a.Heap}, true
	}
	return SV{T: e.loadLoc(r.Loc, st), Sort: e.sortOf(t), Typ: t}, true
}

func (e *Enc) coerce(a, b SV) (SV, SV) {
	if a.Sort == "Real" && b.Sort == "Int" {
		b = SV{T: intToReal(b.T), Sort: "Real", Typ: a.Typ}
	} else if a.Sort == "Int" && b.Sort == "Real" {
		a = SV{T: intToReal(a.T), Sort: "Real", Typ: b.Typ}
	}
	// nil literal adapts
	if a.Sort == "Nil" {
		a = nilOf(b)
	}
	if b.Sort == "Nil" {
		b = nilOf(a)
	}
	return a, b
}

func intToReal(t string) string {
	if isAtom(t) {
		allDigits := t != ""
		for _, r := range t {
			if r < '0' || r > '9' {
				allDigits = false
			}
		}
		if allDigits {
			return t + ".0"
		}
	}
	return "(to_real " + t + ")"
}

func nilOf(o SV) SV {
	switch o.Sort {
	case "Iface":
		return SV{T: "nilI", Sort: "Iface", Typ: o.Typ}
	case "Slice":
		return SV{T: "(mkslice nil 0 0 0)", Sort: "Slice", Typ: o.Typ}
	}
	return SV{T: "nil", Sort: "Ref", Typ: o.Typ}
}

func (e *Enc) evalSpec(x SExpr, ctx *SpecCtx) (SV, error) {
	switch n := x.(type) {
	case *SLit:
		switch n.Kind {
		case "int":
			return SV{T: n.Val, Sort: "Int", Typ: types.Typ[types.Int]}, nil
		case "float":
			return SV{T: n.Val, Sort: "Real", Typ: types.Typ[types.Float64]}, nil
		case "bool":
			return SV{T: n.Val, Sort: "Bool", Typ: types.Typ[types.Bool]}, nil
		case "string":
			return SV{T: e.strConst(n.Val), Sort: "Str", Typ: types.Typ[types.String]}, nil
		case "nil":
			return SV{T: "nil", Sort: "Nil"}, nil
		}
	case *SIdent:
		return e.evalIdent(n.Name, ctx)
	case *SField:
		base, err := e.evalSpec(n.X, ctx)
		if err != nil {
			return SV{}, err
		}
		if base.Pkg != nil {
			obj := base.Pkg.Scope().Lookup(n.Name)
			if obj == nil {
				return SV{}, fmt.Errorf("%s.%s not found", base.Pkg.Name(), n.Name)
			}
			return e.objectValue(obj, ctx)
		}
		return e.evalField(base, n.Name, ctx)
	case *SIndex:
		base, err := e.evalSpec(n.X, ctx)
		if err != nil {
			return SV{}, err
		}
		idx, err := e.evalSpec(n.I, ctx)
		if err != nil {
			return SV{}, err
		}
		return e.evalIndex(base, idx, ctx)
	case *SUn:
		v, err := e.evalSpec(n.X, ctx)
		if err != nil {
			return SV{}, err
		}
		if n.Op == "!" {
			return SV{T: not(v.T), Sort: "Bool"}, nil
		}
		return SV{T: "(- " + v.T + ")", Sort: v.Sort, Typ: v.Typ}, nil
	case *SBin:
		return e.evalBin(n, ctx)
	case *SQuant:
		c2 := ctx
		var decls []string
		var guards []string
		for _, b := range n.Vars {
			s, t := e.specSort(b.Type, ctx.pkg, ctx.pos)
			e.nfresh++
			vn := fmt.Sprintf("%s?%d", sanitize(b.Name), e.nfresh)
			c2 = c2.bind(b.Name, SV{T: vn, Sort: s, Typ: t})
			decls = append(decls, "("+vn+" "+s+")")
			if t != nil {
				if bt, ok := t.Underlying().(*types.Basic); ok && bt.Info()&types.IsUnsigned != 0 {
					guards = append(guards, "(>= "+vn+" 0)")
				}
			}
		}
		body, err := e.evalSpec(n.Body, c2)
		if err != nil {
			return SV{}, err
		}
		if body.Sort != "Bool" {
			return SV{}, fmt.Errorf("quantifier body is not boolean")
		}
		q := "exists"
		bt := body.T
		if n.Forall {
			q = "forall"
			if len(guards) > 0 {
				bt = implies(and(guards...), bt)
			}
		} else if len(guards) > 0 {
			bt = and(append(guards, bt)...)
		}
		return SV{T: "(" + q + " (" + strings.Join(decls, " ") + ") " + bt + ")", Sort: "Bool"}, nil
	case *SCall:
		return e.evalCall(n, ctx)
	}
	return SV{}, fmt.Errorf("cannot evaluate %s", x)
}

func derefStruct(t types.Type) (types.Type, bool) {
	if t == nil {
		return nil, false
	}
	if p, ok := t.Underlying().(*types.Pointer); ok {
		return p.Elem(), true
	}
	return t, false
}

func (e *Enc) evalField(base SV, name string, ctx *SpecCtx) (SV, error) {
	if base.Typ == nil {
		return SV{}, fmt.Errorf("field %s of untyped spec value", name)
	}
	obj, path, _ := types.LookupFieldOrMethod(base.Typ, true, nil, name)
	if obj == nil {
		// unexported fields need the package
		obj, path, _ = types.LookupFieldOrMethod(base.Typ, true, e.typesPkg(ctx.pkg), name)
		if obj == nil {
			// try the type's own package
			if st, _ := derefStruct(base.Typ); st != nil {
				if nt, ok := st.(*types.Named); ok && nt.Obj().Pkg() != nil {
					obj, path, _ = types.LookupFieldOrMethod(base.Typ, true, nt.Obj().Pkg(), name)
				}
			}
		}
	}
	if _, ok := obj.(*types.Var); !ok || obj == nil {
		return SV{}, fmt.Errorf("no field %s in %s", name, base.Typ)
	}
	cur := base
	for _, idx := range path {
		st, isPtr := derefStruct(cur.Typ)
		u, ok := st.Underlying().(*types.Struct)
		if !ok {
			return SV{}, fmt.Errorf("field access on non-struct %s", cur.Typ)
		}
		f := u.Field(idx)
		if cur.Sort == "Ref" && (isPtr || isObjStruct(st)) {
			// heap object
			rst := ctx.cur
			if cur.LocalObj && ctx.localSt != nil {
				rst = ctx.localSt
			}
			if isObjStruct(f.Type()) {
				lo := cur.LocalObj
				cur = SV{T: e.subAddr(st, idx, cur.T), Sort: "Ref", Typ: types.NewPointer(f.Type()), LocalObj: lo}
				e.specLoadFact(cur.T, "Ref", rst)
			} else {
				c := e.fieldComp(st, idx)
				cur = SV{T: sel(e.get(rst, c), cur.T), Sort: e.sortOf(f.Type()), Typ: f.Type()}
				e.specLoadFact(cur.T, cur.Sort, rst)
			}
		} else {
			// struct value (datatype)
			s := e.sortOf(st)
			cur = SV{T: fmt.Sprintf("(%s_%s %s)", s, sanitize(f.Name()), cur.T), Sort: e.sortOf(f.Type()), Typ: f.Type()}
		}
	}
	return cur, nil
}

func (e *Enc) evalIndex(base, idx SV, ctx *SpecCtx) (SV, error) {
	if base.Typ != nil {
		switch t := base.Typ.Underlying().(type) {
		case *types.Map:
			idx = e.adaptKey(idx, t.Key(), ctx.cur)
			val, _ := e.mapLookup(ctx.cur, t, base.T, idx.T)
			e.specLoadFact(val, e.sortOf(t.Elem()), ctx.cur)
			return SV{T: val, Sort: e.sortOf(t.Elem()), Typ: t.Elem()}, nil
		case *types.Slice:
			c := e.sliceComp(t.Elem())
			r := SV{T: sel(sel(e.get(ctx.cur, c), "(s_arr "+base.T+")"), "(sidx (s_off "+base.T+") "+idx.T+")"), Sort: e.sortOf(t.Elem()), Typ: t.Elem()}
			e.specLoadFact(r.T, r.Sort, ctx.cur)
			return r, nil
		case *types.Array:
			return SV{T: sel(base.T, idx.T), Sort: e.sortOf(t.Elem()), Typ: t.Elem()}, nil
		}
	}
	if strings.HasPrefix(base.Sort, "(Array ") {
		ks, vs := arraySorts(base.Sort)
		idx = e.adapt(idx, ks)
		return SV{T: sel(base.T, idx.T), Sort: vs}, nil
	}
	return SV{}, fmt.Errorf("cannot index %s", base.Sort)
}

// adaptKey: like adapt, and a struct-typed variable (held as an object) used as a map key of
// struct type is read as the struct value.
func (e *Enc) adaptKey(v SV, kt types.Type, st *St) SV {
	want := e.sortOf(kt)
	if v.Sort == "Ref" && want != "Ref" {
		if _, ok := kt.Underlying().(*types.Struct); ok {
			return SV{T: e.loadStruct(v.T, kt, st), Sort: want, Typ: kt}
		}
	}
	return e.adapt(v, want)
}

func (e *Enc) adapt(v SV, want string) SV {
	if v.Sort == "Nil" {
		switch want {
		case "Iface":
			return SV{T: "nilI", Sort: "Iface"}
		case "Slice":
			return SV{T: "(mkslice nil 0 0 0)", Sort: "Slice"}
		default:
			return SV{T: "nil", Sort: "Ref"}
		}
	}
	if v.Sort == "Int" && want == "Real" {
		return SV{T: intToReal(v.T), Sort: "Real"}
	}
	return v
}

// arraySorts splits "(Array K V)".
func arraySorts(s string) (string, string) {
	inner := strings.TrimSuffix(strings.TrimPrefix(s, "(Array "), ")")
	// split at top-level space
	depth := 0
	for i := 0; i < len(inner); i++ {
		switch inner[i] {
		case '(':
			depth++
		case ')':
			depth--
		case ' ':
			if depth == 0 {
				return inner[:i], inner[i+1:]
			}
		}
	}
	return inner, ""
}

func (e *Enc) evalBin(n *SBin, ctx *SpecCtx) (SV, error) {
	if n.Op == "in" {
		k, err := e.evalSpec(n.L, ctx)
		if err != nil {
			return SV{}, err
		}
		m, err := e.evalSpec(n.R, ctx)
		if err != nil {
			return SV{}, err
		}
		if m.Typ != nil {
			if mt, ok := m.Typ.Underlying().(*types.Map); ok {
				k = e.adaptKey(k, mt.Key(), ctx.cur)
				_, ok := e.mapLookup(ctx.cur, mt, m.T, k.T)
				return SV{T: ok, Sort: "Bool"}, nil
			}
		}
		if strings.HasPrefix(m.Sort, "(Array ") {
			ks, _ := arraySorts(m.Sort)
			k = e.adapt(k, ks)
			return SV{T: sel(m.T, k.T), Sort: "Bool"}, nil
		}
		return SV{}, fmt.Errorf("'in' needs a map or set, got %s", m.Sort)
	}
	l, err := e.evalSpec(n.L, ctx)
	if err != nil {
		return SV{}, err
	}
	r, err := e.evalSpec(n.R, ctx)
	if err != nil {
		return SV{}, err
	}
	switch n.Op {
	case "&&":
		return SV{T: and(l.T, r.T), Sort: "Bool"}, nil
	case "||":
		return SV{T: or(l.T, r.T), Sort: "Bool"}, nil
	case "==>":
		return SV{T: implies(l.T, r.T), Sort: "Bool"}, nil
	case "<==>":
		return SV{T: eq(l.T, r.T), Sort: "Bool"}, nil
	case "==", "!=":
		l, r = e.coerce(l, r)
		var t string
		if l.Sort == "Slice" && (isNilSlice(r.T) || isNilSlice(l.T)) {
			o := l
			if isNilSlice(l.T) {
				o = r
			}
			t = eq("(s_arr "+o.T+")", "nil")
		} else {
			t = eq(l.T, r.T)
		}
		if n.Op == "!=" {
			t = not(t)
		}
		return SV{T: t, Sort: "Bool"}, nil
	case "<", "<=", ">", ">=":
		l, r = e.coerce(l, r)
		return SV{T: "(" + n.Op + " " + l.T + " " + r.T + ")", Sort: "Bool"}, nil
	case "+", "-", "*":
		l, r = e.coerce(l, r)
		if l.Sort == "Str" && n.Op == "+" {
			return SV{T: "(str_cat " + l.T + " " + r.T + ")", Sort: "Str", Typ: l.Typ}, nil
		}
		if l.Sort == "Real" && n.Op == "*" {
			return SV{T: e.realMul(l.T, r.T), Sort: "Real", Typ: l.Typ}, nil
		}
		return SV{T: "(" + n.Op + " " + l.T + " " + r.T + ")", Sort: l.Sort, Typ: l.Typ}, nil
	case "/":
		l, r = e.coerce(l, r)
		if l.Sort == "Real" {
			return SV{T: "(/ " + l.T + " " + r.T + ")", Sort: "Real", Typ: l.Typ}, nil
		}
		return SV{T: "(gdiv " + l.T + " " + r.T + ")", Sort: "Int", Typ: l.Typ}, nil
	case "%":
		return SV{T: "(gmod " + l.T + " " + r.T + ")", Sort: "Int", Typ: l.Typ}, nil
	}
	return SV{}, fmt.Errorf("bad operator %s", n.Op)
}

func isNilSlice(t string) bool { return t == "(mkslice nil 0 0 0)" }

func (e *Enc) evalCall(n *SCall, ctx *SpecCtx) (SV, error) {
	arg := func(i int) (SV, error) {
		if i >= len(n.Args) {
			return SV{}, fmt.Errorf("%s: missing argument %d", n.Fn, i)
		}
		return e.evalSpec(n.Args[i], ctx)
	}
	switch n.Fn {
	case "old":
		if ctx.old == nil {
			return SV{}, fmt.Errorf("old() not available here")
		}
		c2 := ctx.withState(ctx.old)
		return e.evalSpec(n.Args[0], c2)
	case "prev":
		// prev(x): the local variable x (and everything else in the expression) as it was at the
		// start of the current iteration - unlike iter(e), which reads locals in the current state
		if ctx.iter == nil {
			return SV{}, fmt.Errorf("prev() outside a loop step clause")
		}
		c2 := ctx.withState(ctx.iter)
		c2.localSt = ctx.iter
		return e.evalSpec(n.Args[0], c2)
	case "entry":
		// entry(e): e's heap and ghost reads in the entry state of the function under verification,
		// also from a loop invariant of a callee that was expanded in place (where old() is the
		// callee's own entry)
		if e.topFrame == nil || e.topFrame.entry == nil {
			return SV{}, fmt.Errorf("entry() not available here")
		}
		c2 := ctx.withState(e.topFrame.entry)
		return e.evalSpec(n.Args[0], c2)
	case "len":
		v, err := arg(0)
		if err != nil {
			return SV{}, err
		}
		if v.Typ != nil {
			switch t := v.Typ.Underlying().(type) {
			case *types.Map:
				_, _, l := e.mapComps(t)
				e.mapLenFact(t, v.T, ctx.cur)
				return SV{T: sel(e.get(ctx.cur, l), v.T), Sort: "Int", Typ: types.Typ[types.Int]}, nil
			case *types.Slice:
				return SV{T: "(s_len " + v.T + ")", Sort: "Int", Typ: types.Typ[types.Int]}, nil
			case *types.Basic:
				return SV{T: "(strlen " + v.T + ")", Sort: "Int", Typ: types.Typ[types.Int]}, nil
			}
		}
		if v.Sort == "Str" {
			return SV{T: "(strlen " + v.T + ")", Sort: "Int"}, nil
		}
		if v.Sort == "Slice" {
			return SV{T: "(s_len " + v.T + ")", Sort: "Int"}, nil
		}
		return SV{}, fmt.Errorf("len of %s", v.Sort)
	case "cap":
		v, err := arg(0)
		if err != nil {
			return SV{}, err
		}
		return SV{T: "(s_cap " + v.T + ")", Sort: "Int"}, nil
	case "arr":
		v, err := arg(0)
		if err != nil {
			return SV{}, err
		}
		return SV{T: "(s_arr " + v.T + ")", Sort: "Ref"}, nil
	case "off":
		v, err := arg(0)
		if err != nil {
			return SV{}, err
		}
		return SV{T: "(s_off " + v.T + ")", Sort: "Int"}, nil
	case "has":
		// has(m, k1, k2): k1 in m && k2 in m[k1]
		m, err := arg(0)
		if err != nil {
			return SV{}, err
		}
		var conj []string
		cur := m
		for i := 1; i < len(n.Args); i++ {
			k, err := arg(i)
			if err != nil {
				return SV{}, err
			}
			mt, ok := cur.Typ.Underlying().(*types.Map)
			if !ok {
				return SV{}, fmt.Errorf("has: not a map")
			}
			k = e.adaptKey(k, mt.Key(), ctx.cur)
			val, ok2 := e.mapLookup(ctx.cur, mt, cur.T, k.T)
			conj = append(conj, ok2)
			cur = SV{T: val, Sort: e.sortOf(mt.Elem()), Typ: mt.Elem()}
		}
		return SV{T: and(conj...), Sort: "Bool"}, nil
	case "ite":
		c, err := arg(0)
		if err != nil {
			return SV{}, err
		}
		a, err := arg(1)
		if err != nil {
			return SV{}, err
		}
		b, err := arg(2)
		if err != nil {
			return SV{}, err
		}
		a, b = e.coerce(a, b)
		return SV{T: ite(c.T, a.T, b.T), Sort: a.Sort, Typ: a.Typ}, nil
	case "min", "max":
		a, err := arg(0)
		if err != nil {
			return SV{}, err
		}
		b, err := arg(1)
		if err != nil {
			return SV{}, err
		}
		a, b = e.coerce(a, b)
		f := "i" + n.Fn
		if a.Sort == "Real" {
			f = "r" + n.Fn
		}
		return SV{T: "(" + f + " " + a.T + " " + b.T + ")", Sort: a.Sort, Typ: a.Typ}, nil
	case "real":
		a, err := arg(0)
		if err != nil {
			return SV{}, err
		}
		if a.Sort == "Real" {
			return a, nil
		}
		return SV{T: intToReal(a.T), Sort: "Real"}, nil
	case "unchanged":
		var conj []string
		for i := range n.Args {
			a, err := arg(i)
			if err != nil {
				return SV{}, err
			}
			c2 := ctx.withState(ctx.old)
			c2.locals = false
			b, err := e.evalSpec(n.Args[i], c2)
			if err != nil {
				return SV{}, err
			}
			conj = append(conj, eq(a.T, b.T))
		}
		return SV{T: and(conj...), Sort: "Bool"}, nil
	case "calls":
		id, ok := n.Args[0].(*SIdent)
		name := ""
		if ok {
			name = id.Name
		} else if lit, ok := n.Args[0].(*SLit); ok {
			name = lit.Val
		} else {
			name = n.Args[0].String()
		}
		c := e.callGhost("calls_", name)
		if c == nil {
			c = e.callsComp(e.resolveCalleeName(name))
		}
		return SV{T: e.get(ctx.cur, c), Sort: "Int"}, nil
	case "passed":
		// passed(f, i): set of values passed as argument i to callback f (Array sort); use as passed(f, i)[x]
		name := e.resolveCalleeName(n.Args[0].String())
		idx := 0
		if len(n.Args) > 1 {
			if lit, ok := n.Args[1].(*SLit); ok {
				fmt.Sscanf(lit.Val, "%d", &idx)
			}
		}
		c := e.callGhost(fmt.Sprintf("passed%d_", idx), n.Args[0].String())
		if c == nil {
			return SV{}, fmt.Errorf("passed(%s, %d): no such callback call in this function", name, idx)
		}
		return SV{T: e.get(ctx.cur, c), Sort: c.Sort}, nil
	case "alltrue":
		c := e.callGhost("alltrue_", n.Args[0].String())
		if c == nil {
			return SV{}, fmt.Errorf("alltrue(%s): no boolean callback call in this function", n.Args[0])
		}
		return SV{T: e.get(ctx.cur, c), Sort: "Bool"}, nil
	case "lastret", "lastarg", "firstret":
		// lastret(f[, i]) / lastarg(f, i): value returned by / passed to the most recent call of f
		name := e.resolveCalleeName(n.Args[0].String())
		idx := 0
		if len(n.Args) > 1 {
			if lit, ok := n.Args[1].(*SLit); ok {
				fmt.Sscanf(lit.Val, "%d", &idx)
			}
		}
		cn := fmt.Sprintf("%s%d_%s", n.Fn, idx, sanitize(name))
		c := e.callGhost(fmt.Sprintf("%s%d_", n.Fn, idx), n.Args[0].String())
		if c == nil {
			// never called here: the ghost is an arbitrary value of the right sort, if we can tell it
			if fn := e.w.Funcs[name]; fn != nil {
				var t types.Type
				if (n.Fn == "lastret" || n.Fn == "firstret") && idx < fn.Signature.Results().Len() {
					t = fn.Signature.Results().At(idx).Type()
				} else if n.Fn == "lastarg" && idx < len(fn.Params) {
					t = fn.Params[idx].Type()
				}
				if t != nil {
					c = e.comp(cn, e.sortOf(t), "ghost", "G:calls:"+name)
				}
			}
		}
		if c == nil {
			// interface method Iface.Method (of this package or an imported one) never invoked here
			raw := n.Args[0].String()
			if dot := strings.LastIndex(raw, "."); dot > 0 && !strings.Contains(raw, "(") {
				in, mn := raw[:dot], raw[dot+1:]
				var obj types.Object
				if q := strings.Index(in, "."); q > 0 {
					if ip := e.importedPkg(ctx.pkg, in[:q]); ip != nil {
						obj = ip.Scope().Lookup(in[q+1:])
					}
				} else {
					obj = e.lookupPkgObject(ctx.pkg, in)
					if obj == nil {
						// e.g. Conn.RemotePeer: search the imports
						if pk := e.w.pkgOf(ctx.pkg); pk != nil {
							for _, imp := range pk.Types.Imports() {
								if o := imp.Scope().Lookup(in); o != nil {
									obj = o
									break
								}
							}
						}
					}
				}
				if tn, ok := obj.(*types.TypeName); ok {
					if it, ok := tn.Type().Underlying().(*types.Interface); ok {
						for i := 0; i < it.NumMethods(); i++ {
							m := it.Method(i)
							if m.Name() != mn {
								continue
							}
							sig := m.Type().(*types.Signature)
							var t types.Type
							if (n.Fn == "lastret" || n.Fn == "firstret") && idx < sig.Results().Len() {
								t = sig.Results().At(idx).Type()
							} else if n.Fn == "lastarg" && idx == 0 {
								t = tn.Type()
							} else if n.Fn == "lastarg" && idx-1 < sig.Params().Len() {
								t = sig.Params().At(idx - 1).Type()
							}
							if t != nil {
								c = e.comp(cn, e.sortOf(t), "ghost", "G:calls:"+name)
							}
						}
					}
				}
			}
		}
		if c == nil {
			return SV{}, fmt.Errorf("%s(%s): no such call in this function (component %s unknown)", n.Fn, name, cn)
		}
		var typ types.Type
		if dot := strings.LastIndex(name, "."); dot > 0 && !strings.Contains(name, "(") && !strings.Contains(name, "/") {
			// Iface.Method of an in-module interface
			if obj := e.lookupPkgObject(ctx.pkg, name[:dot]); obj != nil {
				if it, ok := obj.Type().Underlying().(*types.Interface); ok {
					for i := 0; i < it.NumMethods(); i++ {
						if it.Method(i).Name() == name[dot+1:] {
							sg := it.Method(i).Type().(*types.Signature)
							if n.Fn == "lastarg" && idx >= 1 && idx-1 < sg.Params().Len() {
								typ = sg.Params().At(idx - 1).Type()
							} else if n.Fn == "lastret" && idx < sg.Results().Len() {
								typ = sg.Results().At(idx).Type()
							}
						}
					}
				}
			}
		}
		if fn := e.w.Funcs[name]; fn != nil {
			if (n.Fn == "lastret" || n.Fn == "firstret") && idx < fn.Signature.Results().Len() {
				typ = fn.Signature.Results().At(idx).Type()
			} else if n.Fn == "lastarg" && idx < len(fn.Params) {
				typ = fn.Params[idx].Type()
			}
		}
		return SV{T: e.get(ctx.cur, c), Sort: c.Sort, Typ: typ}, nil
	case "countret":
		name := e.resolveCalleeName(n.Args[0].String())
		v, err := arg(1)
		if err != nil {
			return SV{}, err
		}
		c := e.callGhost("retcount_", n.Args[0].String())
		if c == nil {
			c = e.comp("retcount_"+sanitize(name), "(Array Int Int)", "ghost", "G:calls:"+name)
		}
		return SV{T: sel(e.get(ctx.cur, c), v.T), Sort: "Int"}, nil
	case "countrecv":
		v, err := arg(0)
		if err != nil {
			return SV{}, err
		}
		c := e.comp("recvcount", "(Array Int Int)", "ghost", "G:recv")
		return SV{T: sel(e.get(ctx.cur, c), v.T), Sort: "Int"}, nil
	case "recvs":
		c := e.comp("recvtotal", "Int", "ghost", "G:recv")
		return SV{T: e.get(ctx.cur, c), Sort: "Int"}, nil
	case "bitand":
		a, err := arg(0)
		if err != nil {
			return SV{}, err
		}
		b, err := arg(1)
		if err != nil {
			return SV{}, err
		}
		return SV{T: bitAnd(e, a.T, b.T), Sort: "Int"}, nil
	case "fresh":
		v, err := arg(0)
		if err != nil {
			return SV{}, err
		}
		t := v.T
		if v.Sort == "Slice" {
			t = "(s_arr " + v.T + ")"
		}
		if ctx.old == nil {
			return SV{}, fmt.Errorf("fresh() needs an old state")
		}
		a := e.allocComp()
		return SV{T: and(not(eq(t, "nil")), not(isAlloc(e.get(ctx.old, a), t)), isAlloc(e.get(ctx.cur, a), t)), Sort: "Bool"}, nil
	case "allocated":
		v, err := arg(0)
		if err != nil {
			return SV{}, err
		}
		t := v.T
		if v.Sort == "Slice" {
			t = "(s_arr " + v.T + ")"
		}
		return SV{T: isAlloc(e.get(ctx.cur, e.allocComp()), t), Sort: "Bool"}, nil
	case "typeis":
		// typeis(x, T): dynamic type of interface x is T
		v, err := arg(0)
		if err != nil {
			return SV{}, err
		}
		tt := ptrTypeArg(n.Args[1].String())
		_, t := e.specSort(tt, ctx.pkg, ctx.pos)
		if t == nil {
			return SV{}, fmt.Errorf("typeis: unknown type %s", tt)
		}
		return SV{T: fmt.Sprintf("(= (typeof %s) %d)", v.T, e.typeID(t)), Sort: "Bool"}, nil
	case "unbox":
		v, err := arg(0)
		if err != nil {
			return SV{}, err
		}
		tt := ptrTypeArg(n.Args[1].String())
		_, t := e.specSort(tt, ctx.pkg, ctx.pos)
		if t == nil {
			return SV{}, fmt.Errorf("unbox: unknown type %s", tt)
		}
		_, ub := e.boxFns(t)
		return SV{T: "(" + ub + " " + v.T + ")", Sort: e.sortOf(t), Typ: t}, nil
	case "held":
		// held(x.mu): mutex at that address is held
		v, err := arg(0)
		if err != nil {
			return SV{}, err
		}
		return SV{T: sel(e.get(ctx.cur, e.heldComp()), v.T), Sort: "Bool"}, nil
	case "notified":
		// notified(q.cond): number of Signal/Broadcast calls on that condition variable so far
		f, ok := n.Args[0].(*SField)
		if !ok {
			return SV{}, fmt.Errorf("notified(x.cond)")
		}
		base, err := e.evalSpec(f.X, ctx)
		if err != nil {
			return SV{}, err
		}
		st, _ := derefStruct(base.Typ)
		c := e.comp("notified_"+e.structName(st)+"_"+sanitize(f.Name), "(Array Ref Int)", "ghost", "G:notified")
		return SV{T: sel(e.get(ctx.cur, c), base.T), Sort: "Int"}, nil
	case "ctxdone":
		v, err := arg(0)
		if err != nil {
			return SV{}, err
		}
		c := e.comp("ctxdone", "(Array Iface Bool)", "ghost", "G:ctxdone")
		return SV{T: sel(e.get(ctx.cur, c), v.T), Sort: "Bool"}, nil
	case "iter":
		if ctx.iter == nil {
			return SV{}, fmt.Errorf("iter() outside a loop step clause")
		}
		return e.evalSpec(n.Args[0], ctx.withState(ctx.iter))
	case "received", "lastrecv", "sent", "lastsent", "lastrecvok":
		// received(x.f): number of values received through channel field f of x;
		// lastrecv(x.f): the last of them
		sf, ok := n.Args[0].(*SField)
		if !ok {
			return SV{}, fmt.Errorf("%s: argument must be a channel field x.f", n.Fn)
		}
		base, err := e.evalSpec(sf.X, ctx)
		if err != nil {
			return SV{}, err
		}
		stT, ok := derefStruct(base.Typ)
		if !ok {
			return SV{}, fmt.Errorf("%s: %s is not a struct pointer", n.Fn, sf.X)
		}
		u := stT.Underlying().(*types.Struct)
		var ft types.Type
		for i := 0; i < u.NumFields(); i++ {
			if u.Field(i).Name() == sf.Name {
				ft = u.Field(i).Type()
			}
		}
		if ft == nil {
			return SV{}, fmt.Errorf("%s: no field %s", n.Fn, sf.Name)
		}
		ch, ok := ft.Underlying().(*types.Chan)
		if !ok {
			return SV{}, fmt.Errorf("%s: field %s is not a channel", n.Fn, sf.Name)
		}
		key := e.structName(stT) + "_" + sanitize(sf.Name)
		if n.Fn == "lastrecvok" {
			c := e.comp("chlastok_"+key, "(Array Ref Bool)", "ghost", "G:chan")
			return SV{T: sel(e.get(ctx.cur, c), base.T), Sort: "Bool"}, nil
		}
		if n.Fn == "received" || n.Fn == "sent" {
			pfx := map[string]string{"received": "chrecv_", "sent": "chsent_"}[n.Fn]
			c := e.comp(pfx+key, "(Array Ref Int)", "ghost", "G:chan")
			return SV{T: sel(e.get(ctx.cur, c), base.T), Sort: "Int"}, nil
		}
		srt := e.sortOf(ch.Elem())
		pfx := map[string]string{"lastrecv": "chlast_", "lastsent": "chlastsent_"}[n.Fn]
		c := e.comp(pfx+key, "(Array Ref "+srt+")", "ghost", "G:chan")
		return SV{T: sel(e.get(ctx.cur, c), base.T), Sort: srt, Typ: ch.Elem()}, nil
	case "lin":
		// evaluate at the linearisation point (last lock acquisition / wait return)
		ls := &St{v: map[string]string{}}
		for k, v := range ctx.cur.v {
			ls.v[k] = v
		}
		for k, v := range ctx.cur.v {
			if strings.HasPrefix(k, "lin$") {
				ls.v[strings.TrimPrefix(k, "lin$")] = v
			}
		}
		c2 := ctx.withState(ls)
		return e.evalSpec(n.Args[0], c2)
	case "deref":
		// deref(p): content of the cell p points to (pointer to a non-struct value)
		v, err := arg(0)
		if err != nil {
			return SV{}, err
		}
		pt, ok := v.Typ.Underlying().(*types.Pointer)
		if !ok {
			return SV{}, fmt.Errorf("deref of non-pointer %v", v.Typ)
		}
		c := e.cellComp(pt.Elem())
		r := SV{T: sel(e.get(ctx.cur, c), v.T), Sort: e.sortOf(pt.Elem()), Typ: pt.Elem()}
		e.specLoadFact(r.T, r.Sort, ctx.cur)
		return r, nil
	case "peerstr":
		v, err := arg(0)
		if err != nil {
			return SV{}, err
		}
		e.hdrOnce("peerstr", `(declare-fun peer_str (Str) Str)
(declare-fun peer_str_inv (Str) Str)
(assert (forall ((x Str)) (! (= (peer_str_inv (peer_str x)) x) :pattern ((peer_str x)))))`)
		return SV{T: "(peer_str " + v.T + ")", Sort: "Str"}, nil
	case "bytestr":
		// bytestr(b): the string with the bytes of slice b (string(b) / peer.ID(b))
		v, err := arg(0)
		if err != nil {
			return SV{}, err
		}
		c := e.sliceComp(types.Typ[types.Uint8])
		e.ufun("str_of_bytes", []string{"(Array Int Int)", "Int", "Int"}, "Str")
		return SV{T: fmt.Sprintf("(str_of_bytes (select %s (s_arr %s)) (s_off %s) (s_len %s))", e.get(ctx.cur, c), v.T, v.T, v.T), Sort: "Str"}, nil
	case "be64":
		v, err := arg(0)
		if err != nil {
			return SV{}, err
		}
		bt := types.NewSlice(types.Typ[types.Uint8])
		c := e.sliceComp(bt.Elem())
		e.ufun("be64", []string{"(Array Int Int)", "Int"}, "Int")
		return SV{T: fmt.Sprintf("(be64 (select %s (s_arr %s)) (s_off %s))", e.get(ctx.cur, c), v.T, v.T), Sort: "Int"}, nil
	}
	// function-local definitions (let): an uninterpreted function pinned at function entry
	if lf, ok := e.lets[n.Fn]; ok {
		if len(n.Args) != len(lf.argSorts) {
			return SV{}, fmt.Errorf("let %s: want %d args", n.Fn, len(lf.argSorts))
		}
		var ts []string
		for i := range n.Args {
			a, err := arg(i)
			if err != nil {
				return SV{}, err
			}
			a = e.adapt(a, lf.argSorts[i])
			ts = append(ts, a.T)
		}
		if len(ts) == 0 {
			return SV{T: lf.sym, Sort: lf.ret}, nil
		}
		return SV{T: "(" + lf.sym + " " + strings.Join(ts, " ") + ")", Sort: lf.ret}, nil
	}
	switch n.Fn {
	case "setadd":
		s0, err := arg(0)
		if err != nil {
			return SV{}, err
		}
		x, err := arg(1)
		if err != nil {
			return SV{}, err
		}
		ks, _ := arraySorts(s0.Sort)
		x = e.adapt(x, ks)
		return SV{T: store(s0.T, x.T, "true"), Sort: s0.Sort}, nil
	case "emptyset":
		// emptyset(T): the empty set of T
		srt, _ := e.specSort(n.Args[0].String(), ctx.pkg, ctx.pos)
		return SV{T: "((as const (Array " + srt + " Bool)) false)", Sort: "(Array " + srt + " Bool)"}, nil
	case "domOf":
		m, err := arg(0)
		if err != nil {
			return SV{}, err
		}
		mt, ok := m.Typ.Underlying().(*types.Map)
		if !ok {
			return SV{}, fmt.Errorf("domOf: not a map")
		}
		d, _, _ := e.mapComps(mt)
		return SV{T: sel(e.get(ctx.cur, d), m.T), Sort: "(Array " + e.sortOf(mt.Key()) + " Bool)"}, nil
	}
	// spec functions
	if sf := e.cs.SpecFns[n.Fn]; sf != nil {
		return e.applySpecFn(sf, n, ctx)
	}
	if strings.HasPrefix(n.Fn, ".") {
		// method-style call x.f(args) => spec fn f(x, args)
		if sf := e.cs.SpecFns[n.Fn[1:]]; sf != nil {
			return e.applySpecFn(sf, n, ctx)
		}
	}
	return SV{}, fmt.Errorf("unknown spec function %s", n.Fn)
}

// callGhost finds the ghost component kind+<callee> (kind = "calls_", "lastret0_", ...). The callee
// may be abbreviated: peer.IDFromBytes, (peer.ID).MatchesPublicKey, PubKey.Verify.
func (e *Enc) callGhost(kind, name string) *Comp {
	full := e.resolveCalleeName(name)
	if c := e.comps[kind+sanitize(full)]; c != nil {
		return c
	}
	want := strings.TrimLeft(sanitize(name), "_")
	var hit *Comp
	for _, cn := range e.compOrder {
		if strings.HasPrefix(cn, kind) && strings.HasSuffix(cn, "_"+want) {
			if hit != nil && hit.Name != cn {
				return nil // ambiguous
			}
			hit = e.comps[cn]
		}
	}
	return hit
}

func (e *Enc) resolveCalleeName(name string) string {
	if _, ok := e.w.Funcs[name]; ok {
		return name
	}
	// bare method / function name: unique suffix match
	var hits []string
	for fn := range e.w.Funcs {
		if strings.HasSuffix(fn, ")."+name) || fn == name {
			hits = append(hits, fn)
		}
	}
	if len(hits) == 1 {
		return hits[0]
	}
	return name
}

func (e *Enc) applySpecFn(sf *SpecFn, n *SCall, ctx *SpecCtx) (SV, error) {
	if len(n.Args) != len(sf.Params) {
		return SV{}, fmt.Errorf("spec fn %s: want %d args, got %d", sf.Name, len(sf.Params), len(n.Args))
	}
	var args []SV
	for i := range n.Args {
		a, err := e.evalSpec(n.Args[i], ctx)
		if err != nil {
			return SV{}, err
		}
		ps, pt := e.specSort(sf.Params[i].Type, sf.Pkg, token.NoPos)
		a = e.adapt(a, ps)
		if a.Typ == nil {
			a.Typ = pt
		}
		args = append(args, a)
	}
	rs, rt := e.specSort(sf.Ret, sf.Pkg, token.NoPos)
	if sf.Body == nil {
		// uninterpreted
		var as []string
		var ts []string
		for _, a := range args {
			as = append(as, a.Sort)
			ts = append(ts, a.T)
		}
		e.ufun("sf_"+sf.Name, as, rs)
		if len(ts) == 0 {
			return SV{T: "sf_" + sf.Name, Sort: rs, Typ: rt}, nil
		}
		return SV{T: "(sf_" + sf.Name + " " + strings.Join(ts, " ") + ")", Sort: rs, Typ: rt}, nil
	}
	if ctx.depth > 20 {
		return SV{}, fmt.Errorf("spec fn %s: expansion too deep (recursive?)", sf.Name)
	}
	c2 := *ctx
	c2.depth++
	c2.bound = map[string]SV{}
	c2.params = map[string]SV{}
	c2.results = nil
	// macro semantics: the body may mention local variables of the function whose contract
	// uses the spec function (parameters of the spec function shadow them)
	c2.pkg = sf.Pkg
	c2.pos = token.NoPos
	for i, p := range sf.Params {
		c2.bound[p.Name] = args[i]
	}
	v, err := e.evalSpec(sf.Body, &c2)
	if err != nil {
		return SV{}, fmt.Errorf("in spec fn %s: %v", sf.Name, err)
	}
	v = e.adapt(v, rs)
	if v.Typ == nil {
		v.Typ = rt
	}
	return v, nil
}

func (e *Enc) heldComp() *Comp { return e.comp("held", "(Array Ref Bool)", "ghost", "G:held") }

// ---------- modifies ----------

type modTarget struct {
	comp  *Comp
	whole bool
	objs  []string // object refs (evaluated in the pre-state) whose slot may change
	pred  string   // optional predicate over "o!" for set-valued frames
}

// modTargets interprets a contract's modifies clause in state pre.
func (e *Enc) modTargets(fc *FuncContract, env map[string]SV, callee *ssa.Function, pre *St) ([]*modTarget, error) {
	var out []*modTarget
	ctx := &SpecCtx{e: e, pkg: fc.Pkg, pos: fcPos(callee), params: env, cur: pre, old: pre, fc: fc}
	add := func(c *Comp, whole bool, obj string) {
		for _, t := range out {
			if t.comp == c {
				if whole {
					t.whole = true
				} else {
					t.objs = append(t.objs, obj)
				}
				return
			}
		}
		mt := &modTarget{comp: c, whole: whole}
		if !whole {
			mt.objs = []string{obj}
		}
		out = append(out, mt)
	}
	addPred := func(c *Comp, pred string) {
		out = append(out, &modTarget{comp: c, pred: pred})
	}
	for _, m := range fc.Modifies {
		switch n := m.(type) {
		case *SIdent:
			if _, ok := e.cs.Ghosts[n.Name]; ok {
				add(e.ghostComp(n.Name), true, "")
				continue
			}
			if n.Name == "clock" || n.Name == "now" {
				add(e.clockComp(), true, "")
				continue
			}
			if n.Name == "ctxdone" {
				add(e.comp("ctxdone", "(Array Iface Bool)", "ghost", "G:ctxdone"), true, "")
				continue
			}
			// package-level variable
			if obj := e.lookupPkgObject(fc.Pkg, n.Name); obj != nil {
				if v, ok := obj.(*types.Var); ok {
					if sp := e.w.SPkgs[v.Pkg().Path()]; sp != nil {
						if g, ok := sp.Members[v.Name()].(*ssa.Global); ok {
							add(e.globalComp(g), true, "")
							continue
						}
					}
				}
			}
			return nil, fmt.Errorf("modifies: unknown target %s", n.Name)
		case *SField:
			base, err := e.evalSpec(n.X, ctx)
			if err != nil {
				return nil, err
			}
			comps, refs, err := e.fieldTargets(base, n.Name, ctx)
			if err != nil {
				return nil, err
			}
			for i := range comps {
				add(comps[i], false, refs[i])
			}
		case *SCall:
			switch n.Fn {
			case "map", "maps":
				v, err := e.evalSpec(n.Args[0], ctx)
				if err != nil {
					return nil, err
				}
				mt, ok := v.Typ.Underlying().(*types.Map)
				if !ok {
					return nil, fmt.Errorf("modifies map(%s): not a map", n.Args[0])
				}
				if n.Fn == "map" {
					d, vc, l := e.mapComps(mt)
					add(d, false, v.T)
					add(vc, false, v.T)
					add(l, false, v.T)
				} else {
					inner, ok := mt.Elem().Underlying().(*types.Map)
					if !ok {
						return nil, fmt.Errorf("modifies maps(%s): values are not maps", n.Args[0])
					}
					od, ov, _ := e.mapComps(mt)
					d, vc, l := e.mapComps(inner)
					ks := e.sortOf(mt.Key())
					pred := fmt.Sprintf("(exists ((k! %s)) (and (select (select %s %s) k!) (= (select (select %s %s) k!) o!)))", ks, e.get(pre, od), v.T, e.get(pre, ov), v.T)
					addPred(d, pred)
					addPred(vc, pred)
					addPred(l, pred)
				}
			case "elems":
				v, err := e.evalSpec(n.Args[0], ctx)
				if err != nil {
					return nil, err
				}
				sl, ok := v.Typ.Underlying().(*types.Slice)
				if !ok {
					return nil, fmt.Errorf("modifies elems(%s): not a slice", n.Args[0])
				}
				add(e.sliceComp(sl.Elem()), false, "(s_arr "+v.T+")")
			case "all":
				// all(T.f)
				f, ok := n.Args[0].(*SField)
				if !ok {
					return nil, fmt.Errorf("modifies all(T.f)")
				}
				_, t := e.specSort(f.X.String(), fc.Pkg, fcPos(callee))
				if t == nil {
					return nil, fmt.Errorf("modifies all(%s): unknown type", f.X)
				}
				u, ok := t.Underlying().(*types.Struct)
				if !ok {
					return nil, fmt.Errorf("modifies all(%s): not a struct", f.X)
				}
				found := false
				for i := 0; i < u.NumFields(); i++ {
					if u.Field(i).Name() == f.Name {
						add(e.fieldComp(t, i), true, "")
						found = true
					}
				}
				if !found {
					return nil, fmt.Errorf("modifies all(%s.%s): no such field", f.X, f.Name)
				}
			case "allmaps":
				_, t := e.specSort(n.Args[0].String(), fc.Pkg, fcPos(callee))
				mt, ok := t.(*types.Map)
				if !ok {
					if t != nil {
						mt, ok = t.Underlying().(*types.Map)
					}
					if !ok {
						return nil, fmt.Errorf("modifies allmaps(%s): not a map type", n.Args[0])
					}
				}
				d, vc, l := e.mapComps(mt)
				add(d, true, "")
				add(vc, true, "")
				add(l, true, "")
			case "allelems":
				_, t := e.specSort(n.Args[0].String(), fc.Pkg, fcPos(callee))
				if t == nil {
					return nil, fmt.Errorf("modifies allelems(%s): unknown type", n.Args[0])
				}
				add(e.sliceComp(t), true, "")
			case "calls":
				name := n.Args[0].String()
				add(e.callsComp(e.resolveCalleeName(name)), true, "")
			case "monitor":
				mn := n.Args[0].String()
				found := false
				for _, m := range e.cs.Monitors {
					if m.Struct+"."+m.Mutex == mn {
						found = true
						for _, c := range e.protectedComps(m) {
							add(c, true, "")
						}
						for _, cf := range m.Conds {
							add(e.comp("notified_"+e.monName(m)+"_"+sanitize(cf), "(Array Ref Int)", "ghost", "G:notified"), true, "")
						}
					}
				}
				if !found {
					return nil, fmt.Errorf("modifies monitor(%s): no such monitor", mn)
				}
			default:
				return nil, fmt.Errorf("modifies: unknown form %s", n)
			}
		default:
			return nil, fmt.Errorf("modifies: unsupported target %s", m)
		}
	}
	return out, nil
}

// fieldTargets resolves x.f (possibly through embedded structs) to heap locations.
func (e *Enc) fieldTargets(base SV, name string, ctx *SpecCtx) ([]*Comp, []string, error) {
	obj, path, _ := types.LookupFieldOrMethod(base.Typ, true, e.typesPkg(ctx.pkg), name)
	if obj == nil {
		if st, _ := derefStruct(base.Typ); st != nil {
			if nt, ok := st.(*types.Named); ok && nt.Obj().Pkg() != nil {
				obj, path, _ = types.LookupFieldOrMethod(base.Typ, true, nt.Obj().Pkg(), name)
			}
		}
	}
	if obj == nil {
		return nil, nil, fmt.Errorf("modifies: no field %s in %s", name, base.Typ)
	}
	ref := base.T
	cur := base.Typ
	for i, idx := range path {
		st, _ := derefStruct(cur)
		u := st.Underlying().(*types.Struct)
		f := u.Field(idx)
		if i == len(path)-1 {
			if isObjStruct(f.Type()) {
				// all fields of the embedded struct
				var comps []*Comp
				var refs []string
				sub := e.subAddr(st, idx, ref)
				e.collectStructComps(f.Type(), sub, &comps, &refs)
				return comps, refs, nil
			}
			return []*Comp{e.fieldComp(st, idx)}, []string{ref}, nil
		}
		if isObjStruct(f.Type()) {
			ref = e.subAddr(st, idx, ref)
			cur = f.Type()
		} else {
			ref = sel(e.get(ctx.cur, e.fieldComp(st, idx)), ref)
			cur = f.Type()
		}
	}
	return nil, nil, fmt.Errorf("modifies: bad path")
}

func (e *Enc) collectStructComps(t types.Type, ref string, comps *[]*Comp, refs *[]string) {
	u := t.Underlying().(*types.Struct)
	for i := 0; i < u.NumFields(); i++ {
		ft := u.Field(i).Type()
		if isObjStruct(ft) {
			e.collectStructComps(ft, e.subAddr(t, i, ref), comps, refs)
		} else {
			*comps = append(*comps, e.fieldComp(t, i))
			*refs = append(*refs, ref)
		}
	}
}

// applyModifies havocs the declared locations in post (which starts equal to pre).
func (e *Enc) applyModifies(fc *FuncContract, env map[string]SV, callee *ssa.Function, pre, post *St) {
	ts, err := e.modTargets(fc, env, callee, pre)
	if err != nil {
		e.errorf("contract %s: %v", fc.Name, err)
		return
	}
	ms := newModSet()
	for _, t := range ts {
		c := t.comp
		old := e.get(pre, c)
		switch {
		case t.whole:
			e.havocComp(post, c, "")
			ms.add(c.Fam)
		case t.pred != "":
			cur := e.get(post, c)
			n := e.havocComp(post, c, "")
			pred := strings.ReplaceAll(t.pred, "o!", "o")
			a := e.get(pre, e.allocComp())
			e.assume(fmt.Sprintf("(forall ((o Ref)) (! (=> (and %s (not %s)) (= (select %s o) (select %s o))) :pattern ((select %s o))))", isAlloc(a, "o"), pred, n, cur, n))
			ms.add(c.Fam)
		default:
			_, vs := arraySorts(c.Sort)
			term := e.get(post, c)
			for _, o := range t.objs {
				fv := e.fresh("hv")
				e.declare(fv, vs)
				term = store(term, o, fv)
				if c.Kind == "map-l" {
					e.assume("(>= " + fv + " 0)")
				}
			}
			e.set(post, c, term)
			ms.add(c.Fam)
		}
		_ = old
	}
	e.linkMapFacts(post, ms)
	// allocation may grow in any call
	e.havocComp(post, e.allocComp(), "")
	var hv []*Comp
	for _, t := range ts {
		hv = append(hv, t.comp)
	}
	e.assumeClosed(post, hv)
}

// frameGoals computes, per modified component, the formula "only declared locations changed"
// between the top function's entry state and st.
func (e *Enc) frameGoals(st *St) map[string]string {
	fr := e.topFrame
	fc := e.topContract
	out := map[string]string{}
	if fr == nil || fc == nil {
		return out
	}
	entry := fr.entry
	if e.frameTargets == nil {
		env := map[string]SV{}
		for i, p := range fr.fn.Params {
			env[p.Name()] = SV{T: fr.params[i].T, Sort: fr.params[i].S, Typ: p.Type()}
		}
		ts, err := e.modTargets(fc, env, fr.fn, entry)
		if err != nil {
			e.errorf("contract %s: %v", fc.Name, err)
			return out
		}
		e.frameTargets = map[string][]*modTarget{}
		for _, t := range ts {
			e.frameTargets[t.comp.Name] = append(e.frameTargets[t.comp.Name], t)
		}
		e.frameTargets["$done"] = nil
	}
	byComp := e.frameTargets
	a0 := e.get(entry, e.allocComp())
	for _, name := range append([]string{}, e.compOrder...) {
		c := e.comps[name]
		if c.Kind == "local" || c.Kind == "alloc" {
			continue
		}
		if strings.HasPrefix(c.Fam, "G:calls:") || c.Fam == "G:held" || c.Fam == "G:ctxdone" || c.Fam == "G:recv" || c.Fam == "G:chan" {
			continue
		}
		v0, v1 := e.get(entry, c), e.get(st, c)
		if v0 == v1 {
			continue
		}
		whole := false
		var excl []string
		for _, t := range byComp[name] {
			if t.whole {
				whole = true
			}
			for _, o := range t.objs {
				excl = append(excl, not(eq("o", o)))
			}
			if t.pred != "" {
				excl = append(excl, not(strings.ReplaceAll(t.pred, "o!", "o")))
			}
		}
		if whole {
			continue
		}
		var goal string
		if strings.HasPrefix(c.Sort, "(Array Ref ") {
			goal = fmt.Sprintf("(forall ((o Ref)) (! (=> %s (= (select %s o) (select %s o))) :pattern ((select %s o))))", and(append([]string{isAlloc(a0, "o")}, excl...)...), v1, v0, v1)
		} else if c.Kind == "clock" || c.Fam == "G:ctxdone" {
			continue
		} else {
			goal = eq(v1, v0)
		}
		out[name] = goal
	}
	return out
}

// checkFrame generates frame obligations for the top function at its exit.
func (e *Enc) checkFrame(fr *Frame, fc *FuncContract, entry, exit *St, reach string) {
	goals := e.frameGoals(exit)
	for _, name := range sortedKeys(goals) {
		c := e.comps[name]
		e.addObl("frame", c.Name, reach, goals[name], fr.fn.Pos(), "only declared locations of "+c.Fam+" change")
	}
}

// ptrTypeArg: typeis(x, ptr(pkg.T)) / unbox(x, ptr(pkg.T)) name the pointer type *pkg.T (the
// expression grammar has no unary *).
func ptrTypeArg(tt string) string {
	if strings.HasPrefix(tt, "ptr(") && strings.HasSuffix(tt, ")") {
		return "*" + tt[4:len(tt)-1]
	}
	return tt
}

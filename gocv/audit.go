package main

// runAudits runs the effect/permission (E tier) audits that belong to a property.
func runAudits(w *World, cs *Contracts, mods *ModAnalysis, prop string, out *checkOutcome) {
}

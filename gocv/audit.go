package main

import (
	"fmt"
	"go/token"
	"go/types"
	"sort"
	"strings"

	"golang.org/x/tools/go/ssa"
)

// Effect audit for property C14 ("after shutdown every API call returns").
//
// Contract: a function declared `cancellable` (in a *_verif.go file) promises that every
// operation in it that can block on a channel is abandoned when a context is cancelled. The
// audit discharges one obligation per blocking channel operation in the function's own body and
// in every in-module function it reaches through static calls on the same goroutine (go
// statements start other goroutines and are not followed; closures passed to the event loop run
// there and are audited through processLoop's own declaration):
//
//   select (blocking)   ok iff one of its cases receives from X.Done() for a context.Context X
//   plain receive <-c   ok iff c is X.Done() itself, or c is a response channel: a channel made in
//                       this function (make(chan T[, n])) - the request carrying it has been
//                       accepted by the event loop, which answers every accepted request exactly
//                       once (the handlers' "answered" postconditions, property C14)
//   plain send c <- v   ok iff c is made locally with capacity >= 1, or c is loaded from a field
//                       named resp/done of a request (answer sent from inside the event loop to a
//                       waiting or buffered requester)
//
// Everything else is a failed obligation. No solver is involved: the obligations are structural
// (an effect/permission check), generated from the SSA of the current working tree.

type blockingOp struct {
	fn   *ssa.Function
	kind string
	ord  int
	pos  token.Pos
	ok   bool
	why  string
}

func runAudits(w *World, cs *Contracts, mods *ModAnalysis, prop string, out *checkOutcome) {
	var roots []string
	for n, fc := range cs.Funcs {
		if !fc.Cancellable {
			continue
		}
		for _, p := range fc.Props {
			if p == prop {
				roots = append(roots, n)
			}
		}
	}
	if len(roots) == 0 {
		return
	}
	sort.Strings(roots)
	var audited []string
	for _, rn := range roots {
		root := w.Funcs[rn]
		if root != nil && cs.Funcs[rn].CancellableParam != "" {
			lifetimeParam[root] = cs.Funcs[rn].CancellableParam
		}
		if root == nil {
			out.errs = append(out.errs, "contract drift: cancellable function "+rn+" not found")
			continue
		}
		audited = append(audited, rn)
		seen := map[*ssa.Function]bool{}
		var ops []blockingOp
		var walk func(fn *ssa.Function, depth int)
		walk = func(fn *ssa.Function, depth int) {
			if fn == nil || seen[fn] || fn.Blocks == nil || depth > 12 {
				return
			}
			seen[fn] = true
			ops = append(ops, auditFunc(fn)...)
			for _, b := range fn.Blocks {
				for _, ins := range b.Instrs {
					var c *ssa.CallCommon
					switch x := ins.(type) {
					case *ssa.Call:
						c = &x.Call
					case *ssa.Defer:
						c = &x.Call
					case *ssa.MakeClosure:
						// a closure made here and called here (deferred functions, local helpers)
						if cf, ok := x.Fn.(*ssa.Function); ok && closureRunsHere(x) {
							walk(cf, depth+1)
						}
					}
					if c == nil {
						continue
					}
					if callee := c.StaticCallee(); callee != nil && callee.Pkg != nil && inModule(callee.Pkg.Pkg.Path()) {
						if fc := cs.Funcs[shortFuncName(callee)]; fc != nil && fc.Cancellable && callee != root {
							continue // audited on its own
						}
						walk(callee, depth+1)
					}
				}
			}
		}
		walk(root, 0)
		for _, op := range ops {
			out.auditObls++
			name := fmt.Sprintf("%s#cancellable:%s:%s#%d", rn, shortFuncName(op.fn), op.kind, op.ord)
			out.auditNames = append(out.auditNames, name)
			if !op.ok {
				out.auditFail = append(out.auditFail, auditFailure{Name: name, Desc: op.why + " at " + w.Fset.Position(op.pos).String()})
			}
		}
		if len(ops) == 0 {
			// a cancellable function without any blocking operation: one trivial obligation so
			// that the declaration shows up in the counts
			out.auditObls++
		}
	}
	out.byBackend["effect-audit"] += out.auditObls - len(out.auditFail)
	out.extra["cancellable_functions_audited"] = audited
	out.assumptions["effect audit (C14): a select is taken to be cancellable when one case receives from the Done() channel of a context stored in a struct field (the instance's lifetime context); that every such field holds the constructor's context or one derived from it is not checked"] = true
	out.assumptions["effect audit (C14): blocking in module dependencies (libp2p host, streams, discovery) and in sync.Mutex/Cond is outside the audit"] = true
}

func closureRunsHere(mc *ssa.MakeClosure) bool {
	refs := mc.Referrers()
	if refs == nil {
		return false
	}
	for _, r := range *refs {
		switch x := r.(type) {
		case *ssa.Call:
			if x.Call.Value == ssa.Value(mc) {
				return true
			}
		case *ssa.Defer:
			if x.Call.Value == ssa.Value(mc) {
				return true
			}
		case *ssa.Store:
			if a, ok := x.Addr.(*ssa.Alloc); ok && localOnlyCalled(a) {
				return true
			}
		}
	}
	return false
}

// lifetimeParam: functions whose named context parameter IS the lifetime context (goroutine
// roots started by the constructor with its context), declared with `cancellable <param>`.
var lifetimeParam = map[*ssa.Function]string{}

func isParamCtxDone(v ssa.Value, param string) bool {
	if param == "" {
		return false
	}
	c, ok := v.(*ssa.Call)
	if !ok || !isCtxDone(c) {
		return false
	}
	var src ssa.Value = c.Call.Value
	for i := 0; i < 4; i++ {
		switch x := src.(type) {
		case *ssa.Parameter:
			return x.Name() == param
		case *ssa.UnOp:
			if a, ok := x.X.(*ssa.Alloc); ok && x.Op == token.MUL {
				if refs := a.Referrers(); refs != nil {
					found := false
					for _, r := range *refs {
						if s, ok := r.(*ssa.Store); ok && s.Addr == ssa.Value(a) {
							src = s.Val
							found = true
						}
					}
					if found {
						continue
					}
				}
			}
			return false
		default:
			return false
		}
	}
	return false
}

// auditFunc classifies the blocking channel operations of one function body.
func auditFunc(fn *ssa.Function) []blockingOp {
	var ops []blockingOp
	count := map[string]int{}
	add := func(kind string, pos token.Pos, ok bool, why string) {
		count[kind]++
		ops = append(ops, blockingOp{fn: fn, kind: kind, ord: count[kind], pos: pos, ok: ok, why: why})
	}
	for _, b := range fn.Blocks {
		for _, ins := range b.Instrs {
			switch x := ins.(type) {
			case *ssa.Select:
				if !x.Blocking {
					continue
				}
				ok := false
				for _, st := range x.States {
					if st.Dir == types.RecvOnly && (isLifetimeCtxDone(st.Chan) || timerChan(st.Chan) || isParamCtxDone(st.Chan, lifetimeParam[fn])) {
						ok = true // lifetime context, or a timer (the wait is bounded and the loop comes back)
					}
				}
				add("select", x.Pos(), ok, "blocking select without a case on the Done() channel of the instance's lifetime context (a context stored in a field, e.g. p.ctx); a caller-supplied context alone does not end the wait at shutdown")
				// a select inside a loop: the branch taken when the lifetime context is done must
				// leave the loop (otherwise the goroutine spins or blocks again after shutdown)
				if ok && cfgReaches(x.Block(), x.Block()) {
					for k, st := range x.States {
						if st.Dir == types.RecvOnly && (isLifetimeCtxDone(st.Chan) || isParamCtxDone(st.Chan, lifetimeParam[fn])) {
							if tgt := selectCaseTarget(x, k); tgt != nil {
								add("shutdown-exit", x.Pos(), !cfgReaches(tgt, x.Block()), "the case taken when the lifetime context is done leads back to the select: the loop does not end at shutdown")
							}
						}
					}
				}
			case *ssa.Send:
				ok, why := sendOK(x)
				add("send", x.Pos(), ok, why)
			case *ssa.UnOp:
				if x.Op != token.ARROW {
					continue
				}
				if isCtxDone(x.X) {
					add("recv", x.Pos(), true, "")
					continue
				}
				if mk := localMakeChan(x.X); mk != nil {
					add("recv", x.Pos(), true, "")
					continue
				}
				if answerField(x.X) || timerChan(x.X) {
					add("recv", x.Pos(), true, "")
					continue
				}
				add("recv", x.Pos(), false, "plain receive from a channel that is neither a context's Done() nor a response channel made by this function")
			}
		}
	}
	return ops
}

// isLifetimeCtxDone: v is X.Done() where the context X is loaded from a struct field (the
// context given to the constructor and stored in the instance), directly or through a local.
func isLifetimeCtxDone(v ssa.Value) bool {
	c, ok := v.(*ssa.Call)
	if !ok {
		if u, ok := v.(*ssa.UnOp); ok && u.Op == token.MUL {
			if a, ok := u.X.(*ssa.Alloc); ok {
				if refs := a.Referrers(); refs != nil {
					for _, r := range *refs {
						if s, ok := r.(*ssa.Store); ok && s.Addr == ssa.Value(a) && isLifetimeCtxDone(s.Val) {
							return true
						}
					}
				}
			}
		}
		return false
	}
	if !isCtxDone(c) {
		return false
	}
	return fromField(c.Call.Value, 0)
}

// fromField: the value is loaded from a struct field (possibly via a single-assignment local).
func fromField(v ssa.Value, depth int) bool {
	if depth > 4 {
		return false
	}
	switch x := v.(type) {
	case *ssa.UnOp:
		if x.Op != token.MUL {
			return false
		}
		if _, ok := x.X.(*ssa.FieldAddr); ok {
			return true
		}
		if a, ok := x.X.(*ssa.Alloc); ok {
			if refs := a.Referrers(); refs != nil {
				for _, r := range *refs {
					if s, ok := r.(*ssa.Store); ok && s.Addr == ssa.Value(a) && fromField(s.Val, depth+1) {
						return true
					}
				}
			}
		}
	case *ssa.Field:
		return true
	}
	return false
}

// isCtxDone: v is the result of calling Done() on a context.Context.
func isCtxDone(v ssa.Value) bool {
	switch x := v.(type) {
	case *ssa.Call:
		if x.Call.IsInvoke() && x.Call.Method.Name() == "Done" {
			if n, ok := x.Call.Value.Type().(*types.Named); ok && n.Obj().Pkg() != nil && n.Obj().Pkg().Path() == "context" {
				return true
			}
		}
	case *ssa.UnOp:
		// load of a local that holds ctx.Done()
		if a, ok := x.X.(*ssa.Alloc); ok && x.Op == token.MUL {
			if refs := a.Referrers(); refs != nil {
				for _, r := range *refs {
					if s, ok := r.(*ssa.Store); ok && s.Addr == ssa.Value(a) && isCtxDone(s.Val) {
						return true
					}
				}
			}
		}
	case *ssa.Phi:
		for _, e := range x.Edges {
			if !isCtxDone(e) {
				return false
			}
		}
		return len(x.Edges) > 0
	}
	return false
}

// localMakeChan: v is (a load of a local holding) a channel made in this function.
func localMakeChan(v ssa.Value) *ssa.MakeChan {
	switch x := v.(type) {
	case *ssa.MakeChan:
		return x
	case *ssa.UnOp:
		if a, ok := x.X.(*ssa.Alloc); ok && x.Op == token.MUL {
			if refs := a.Referrers(); refs != nil {
				var mk *ssa.MakeChan
				n := 0
				for _, r := range *refs {
					if s, ok := r.(*ssa.Store); ok && s.Addr == ssa.Value(a) {
						n++
						if m, ok := s.Val.(*ssa.MakeChan); ok {
							mk = m
						}
					}
				}
				if n == 1 {
					return mk
				}
			}
		}
		// free variable of a closure: the channel made by the enclosing function
		if fv, ok := x.X.(*ssa.FreeVar); ok && x.Op == token.MUL {
			if p := fv.Parent().Parent(); p != nil {
				for _, b := range p.Blocks {
					for _, ins := range b.Instrs {
						mc, ok := ins.(*ssa.MakeClosure)
						if !ok || mc.Fn != ssa.Value(fv.Parent()) {
							continue
						}
						for i, f := range fv.Parent().FreeVars {
							if f == fv && i < len(mc.Bindings) {
								if a, ok := mc.Bindings[i].(*ssa.Alloc); ok {
									if refs := a.Referrers(); refs != nil {
										for _, r := range *refs {
											if s, ok := r.(*ssa.Store); ok && s.Addr == ssa.Value(a) {
												if m, ok := s.Val.(*ssa.MakeChan); ok {
													return m
												}
											}
										}
									}
								}
							}
						}
					}
				}
			}
		}
	}
	return nil
}

// answerField: channel loaded from a field resp/done/FirstMessage of a request structure (the
// single-answer channels of the request/response protocol between API goroutines and the event loop).
func answerField(v ssa.Value) bool {
	isAns := func(n string) bool { return n == "resp" || n == "done" || n == "FirstMessage" }
	if ld, ok := v.(*ssa.UnOp); ok && ld.Op == token.MUL {
		if fa, ok := ld.X.(*ssa.FieldAddr); ok {
			if st, ok := derefStruct(fa.X.Type()); ok {
				return isAns(st.Underlying().(*types.Struct).Field(fa.Field).Name())
			}
		}
	}
	if f, ok := v.(*ssa.Field); ok {
		if st, ok := f.X.Type().Underlying().(*types.Struct); ok {
			return isAns(st.Field(f.Field).Name())
		}
	}
	return false
}

// timerChan: the C field of a time.Timer/Ticker or the result of time.After (fires in bounded time).
func timerChan(v ssa.Value) bool {
	if ld, ok := v.(*ssa.UnOp); ok && ld.Op == token.MUL {
		if fa, ok := ld.X.(*ssa.FieldAddr); ok {
			if st, ok := derefStruct(fa.X.Type()); ok {
				if n, ok := st.(*types.Named); ok && n.Obj().Pkg() != nil && n.Obj().Pkg().Path() == "time" {
					return true
				}
			}
		}
	}
	if c, ok := v.(*ssa.Call); ok {
		if callee := c.Call.StaticCallee(); callee != nil && callee.String() == "time.After" {
			return true
		}
	}
	return false
}

func sendOK(x *ssa.Send) (bool, string) {
	if mk := localMakeChan(x.Chan); mk != nil {
		if c, ok := mk.Size.(*ssa.Const); ok {
			if n, ok := constInt(c); ok && n >= 1 {
				return true, ""
			}
		}
		return false, "plain send on an unbuffered channel made by this function"
	}
	if answerField(x.Chan) {
		return true, ""
	}
	return false, "plain channel send that no cancellation can abandon (" + strings.TrimSpace(x.String()) + ")"
}

// selectCaseTarget: the block executed when case k of the select was chosen (nil if the usual
// extract/compare/branch shape is not found - then nothing is judged).
func selectCaseTarget(x *ssa.Select, k int) *ssa.BasicBlock {
	if x.Referrers() == nil {
		return nil
	}
	for _, r := range *x.Referrers() {
		ex, ok := r.(*ssa.Extract)
		if !ok || ex.Index != 0 || ex.Referrers() == nil {
			continue
		}
		for _, r2 := range *ex.Referrers() {
			bo, ok := r2.(*ssa.BinOp)
			if !ok || bo.Op != token.EQL || bo.Referrers() == nil {
				continue
			}
			c, ok := bo.Y.(*ssa.Const)
			if !ok || c.Value == nil || c.Int64() != int64(k) {
				continue
			}
			for _, r3 := range *bo.Referrers() {
				if iff, ok := r3.(*ssa.If); ok && len(iff.Block().Succs) == 2 {
					return iff.Block().Succs[0]
				}
			}
		}
	}
	return nil
}

// blockReaches: to is reachable from a successor path starting at from (from itself counts only
// if it lies on a cycle).
func cfgReaches(from, to *ssa.BasicBlock) bool {
	seen := map[*ssa.BasicBlock]bool{}
	var stack []*ssa.BasicBlock
	if from != to {
		stack = append(stack, from)
	} else {
		stack = append(stack, from.Succs...)
	}
	for len(stack) > 0 {
		b := stack[len(stack)-1]
		stack = stack[:len(stack)-1]
		if b == to {
			return true
		}
		if seen[b] {
			continue
		}
		seen[b] = true
		stack = append(stack, b.Succs...)
	}
	return false
}

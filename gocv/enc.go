package main

import (
	"fmt"
	"go/constant"
	"go/token"
	"go/types"
	"regexp"
	"sort"
	"strings"

	"golang.org/x/tools/go/ssa"
)

// ---------- components, state, values ----------

type Comp struct {
	Name string // SMT base name
	Sort string
	Kind string // field map-d map-v map-l slice cell local ghost alloc global clock
	Fam  string // mod-set family key (e.g. "F:rpcQueue.closed", "M:map[string]int", "S:*RPC")
	Zero string // initial value for locals (empty => symbolic entry value)
}

// St is a symbolic state: component name -> current SMT symbol/term.
type St struct {
	v map[string]string
}

func (s *St) clone() *St {
	n := &St{v: make(map[string]string, len(s.v))}
	for k, x := range s.v {
		n.v[k] = x
	}
	return n
}

type Loc struct {
	Kind string // local field elem cell global
	Comp string
	Base string
	Idx  string
	Typ  types.Type // element type stored at this location
}

type Val struct {
	T     string
	S     string
	Tup   []Val
	Loc   *Loc
	Fn    *ssa.Function
	Binds []Val
	Ext   bool // value produced by an external (out of module) call
	It    *iterRec
	KLen  int // statically known slice length (0 = unknown; use KLenKnown)
	KLenKnown bool
	Typ   types.Type
	CtxOf    string // this value is ctx.Done() of that context
	SubKey   string // "sub_<Struct>_<field>" when this is the address of an embedded struct field
	SubOwner string // the owning object's reference
	Alloc    *ssa.Alloc // this value is the address of that local variable ...
	AllocFr  *Frame     // ... of that frame (provenance of captured function variables)
}

type iterRec struct {
	mapRef   string
	mapTyp   *types.Map
	visited  string // local comp name (Array K Bool)
	startDom string // term: domain at range start
	count    string // local comp name: number of keys produced so far
	isString bool
}

type Obl struct {
	Name   string
	Kind   string
	Prefix int    // number of e.out lines that form the context
	Goal   string // Bool term that must hold whenever Reach holds
	Reach  string
	Pos    token.Pos
	Desc   string
	CutAt  int  // >0: lines of e.out before this index are filtered (context barrier of a cut loop)
	Cover  bool // reachability cover: expect SAT
	Func   string
}

type Enc struct {
	curFr       *Frame
	lenFactSeen map[string]bool
	w   *World
	cs  *Contracts
	hdr []string
	hdrSeen map[string]bool
	out []string
	comps map[string]*Comp
	compOrder []string
	nfresh int
	obls []*Obl
	top  *ssa.Function
	topName string
	assumptions map[string]bool
	strConsts map[string]string
	strOrder  []string
	typeIDs map[string]int
	dtSeen map[string]bool
	preComps []string // comps discovered in a previous pass (eagerly registered)
	errs []string
	oblNames map[string]int
	safeMode bool
	checkFrames bool
	depth int
	specFnDecl map[string]bool
	frameSeq int
	unsupported []string
	heldStack []string
	callCount map[string]int
	mods *ModAnalysis
	topFrame *Frame
	topContract *FuncContract
	curContractFn string
	sentinels []string
	frameTargets map[string][]*modTarget
	inlineCount map[string]int
	curCallees  []*ssa.Function // callee(s) of the call whose effects are being havocked
	dtHdr       []string        // datatype declarations (always emitted before everything else)
	lets        map[string]*letFn
}

type letFn struct {
	sym      string
	argSorts []string
	ret      string
}

func newEnc(w *World, cs *Contracts, mods *ModAnalysis) *Enc {
	e := &Enc{w: w, cs: cs, hdrSeen: map[string]bool{}, comps: map[string]*Comp{}, assumptions: map[string]bool{},
		strConsts: map[string]string{}, typeIDs: map[string]int{}, dtSeen: map[string]bool{}, oblNames: map[string]int{},
		specFnDecl: map[string]bool{}, callCount: map[string]int{}, mods: mods}
	e.hdrOnce("base", `(declare-sort Ref 0)
(declare-sort Str 0)
(declare-sort Iface 0)
(declare-sort TP 0)
(declare-const nil Ref)
(declare-const nilI Iface)
(declare-const str_empty Str)
(declare-fun strlen (Str) Int)
(declare-fun typeof (Iface) Int)
(declare-fun str_cat (Str Str) Str)
(declare-fun str_lt (Str Str) Bool)
(declare-datatypes ((Slice 0)) (((mkslice (s_arr Ref) (s_off Int) (s_len Int) (s_cap Int)))))
(declare-datatypes ((Unit 0)) (((unit))))
(assert (= (typeof nilI) 0))
(assert (= (strlen str_empty) 0))
(assert (forall ((s Str)) (! (>= (strlen s) 0) :pattern ((strlen s)))))
(assert (forall ((s Str)) (! (=> (= (strlen s) 0) (= s str_empty)) :pattern ((strlen s)))))
(assert (forall ((a Str) (b Str)) (! (= (strlen (str_cat a b)) (+ (strlen a) (strlen b))) :pattern ((str_cat a b)))))
(declare-fun sidx (Int Int) Int)
(assert (forall ((o Int) (i Int)) (! (= (sidx o i) (+ o i)) :pattern ((sidx o i)))))
(define-fun gdiv ((a Int) (b Int)) Int (ite (>= a 0) (div a b) (- (div (- a) b))))
(define-fun gmod ((a Int) (b Int)) Int (- a (* b (gdiv a b))))
(define-fun imin ((a Int) (b Int)) Int (ite (<= a b) a b))
(define-fun imax ((a Int) (b Int)) Int (ite (>= a b) a b))
(define-fun rmin ((a Real) (b Real)) Real (ite (<= a b) a b))
(define-fun rmax ((a Real) (b Real)) Real (ite (>= a b) a b))`)
	return e
}

func (e *Enc) hdrOnce(key, text string) {
	if e.hdrSeen[key] {
		return
	}
	e.hdrSeen[key] = true
	e.hdr = append(e.hdr, text)
}

func (e *Enc) emit(s string) { e.out = append(e.out, s) }

func (e *Enc) fresh(base string) string {
	e.nfresh++
	return fmt.Sprintf("%s!%d", base, e.nfresh)
}

func (e *Enc) assume(a string)               { e.emit("(assert " + a + ")") }
func (e *Enc) assumeIf(reach, a string)      { e.emit("(assert (=> " + reach + " " + a + "))") }
func (e *Enc) declare(name, sort string)     { e.emit("(declare-const " + name + " " + sort + ")") }
func (e *Enc) define(name, sort, term string) { e.emit("(define-fun " + name + " () " + sort + " " + term + ")") }

// defineFresh names a term and returns the symbol.
func (e *Enc) defineFresh(base, sort, term string) string {
	if isAtom(term) {
		return term
	}
	n := e.fresh(base)
	e.define(n, sort, term)
	return n
}

func isAtom(t string) bool {
	return !strings.ContainsAny(t, " ()")
}

func (e *Enc) note(a string) { e.assumptions[a] = true }

func (e *Enc) errorf(format string, a ...any) {
	e.errs = append(e.errs, fmt.Sprintf(format, a...))
}

func sanitize(s string) string {
	var b strings.Builder
	for _, r := range s {
		switch {
		case r >= 'a' && r <= 'z', r >= 'A' && r <= 'Z', r >= '0' && r <= '9', r == '_':
			b.WriteRune(r)
		case r == '*':
			b.WriteString("p_")
		case r == '[':
			b.WriteString("L")
		case r == ']':
			b.WriteString("J")
		case r == '.':
			b.WriteString("_")
		case r == ' ':
		default:
			b.WriteString("_")
		}
	}
	return b.String()
}

func typeQualifier(p *types.Package) string {
	if p == nil {
		return ""
	}
	if p.Path() == modPath {
		return ""
	}
	return p.Name()
}

var byteRe = regexp.MustCompile(`\bbyte\b`)
var runeRe = regexp.MustCompile(`\brune\b`)

// typeStr is the canonical textual key of a type (aliases byte/rune normalised).
func typeStr(t types.Type) string {
	s := types.TypeString(t, typeQualifier)
	if strings.Contains(s, "byte") {
		s = byteRe.ReplaceAllString(s, "uint8")
	}
	if strings.Contains(s, "rune") {
		s = runeRe.ReplaceAllString(s, "int32")
	}
	return s
}

// ---------- sorts ----------

func isTimeTime(t types.Type) bool {
	if n, ok := t.(*types.Named); ok {
		o := n.Obj()
		return o.Pkg() != nil && o.Pkg().Path() == "time" && o.Name() == "Time"
	}
	return false
}

func isNamed(t types.Type, pkg, name string) bool {
	if n, ok := t.(*types.Named); ok {
		o := n.Obj()
		return o.Pkg() != nil && o.Pkg().Path() == pkg && o.Name() == name
	}
	return false
}

// structObjType reports whether values of t live in the heap as field-addressed objects
// (non-special structs).
func isObjStruct(t types.Type) bool {
	if isTimeTime(t) {
		return false
	}
	_, ok := t.Underlying().(*types.Struct)
	return ok
}

func (e *Enc) sortOf(t types.Type) string {
	if isTimeTime(t) {
		return "Int"
	}
	switch u := t.Underlying().(type) {
	case *types.Basic:
		switch {
		case u.Info()&types.IsBoolean != 0:
			return "Bool"
		case u.Info()&types.IsInteger != 0:
			return "Int"
		case u.Info()&types.IsFloat != 0:
			return "Real"
		case u.Info()&types.IsString != 0:
			return "Str"
		case u.Kind() == types.UnsafePointer:
			return "Ref"
		case u.Kind() == types.UntypedNil:
			return "Ref"
		case u.Info()&types.IsComplex != 0:
			return "Real"
		}
		return "Int"
	case *types.Pointer, *types.Map, *types.Chan, *types.Signature:
		return "Ref"
	case *types.Interface:
		if _, ok := t.(*types.TypeParam); ok {
			return "TP"
		}
		return "Iface"
	case *types.Slice:
		return "Slice"
	case *types.Struct:
		if u.NumFields() == 0 {
			return "Unit"
		}
		return e.structSort(t, u)
	case *types.Array:
		return "(Array Int " + e.sortOf(u.Elem()) + ")"
	case *types.Tuple:
		return "Unit"
	}
	return "Int"
}

func (e *Enc) structName(t types.Type) string {
	if n, ok := t.(*types.Named); ok {
		s := n.Obj().Name()
		if n.Obj().Pkg() != nil && n.Obj().Pkg().Path() != modPath {
			pp := n.Obj().Pkg().Path()
			if inModule(pp) {
				pp = shortPkg(pp)
			}
			s = sanitize(strings.ReplaceAll(pp, "/", "_")) + "_" + s
		}
		if n.TypeArgs() != nil && n.TypeArgs().Len() > 0 {
			s += "_" + sanitize(typeStr(n))
		}
		return sanitize(s)
	}
	return "anon_" + sanitize(typeStr(t))
}

func (e *Enc) structSort(t types.Type, u *types.Struct) string {
	name := "SV_" + e.structName(t)
	if e.dtSeen[name] {
		return name
	}
	e.dtSeen[name] = true
	var fs []string
	for i := 0; i < u.NumFields(); i++ {
		f := u.Field(i)
		fs = append(fs, fmt.Sprintf("(%s_%s %s)", name, sanitize(f.Name()), e.sortOf(f.Type())))
	}
	e.dtHdr = append(e.dtHdr, fmt.Sprintf("(declare-datatypes ((%s 0)) (((mk_%s %s))))", name, name, strings.Join(fs, " ")))
	return name
}

func (e *Enc) zeroOf(t types.Type) string {
	if isTimeTime(t) {
		return "0"
	}
	s := e.sortOf(t)
	switch s {
	case "Int":
		return "0"
	case "Bool":
		return "false"
	case "Real":
		return "0.0"
	case "Str":
		return "str_empty"
	case "Ref":
		return "nil"
	case "Iface":
		return "nilI"
	case "Slice":
		return "(mkslice nil 0 0 0)"
	case "Unit":
		return "unit"
	case "TP":
		e.hdrOnce("tpzero", "(declare-const tp_zero TP)")
		return "tp_zero"
	}
	switch u := t.Underlying().(type) {
	case *types.Struct:
		var fs []string
		for i := 0; i < u.NumFields(); i++ {
			fs = append(fs, e.zeroOf(u.Field(i).Type()))
		}
		return "(mk_" + s + " " + strings.Join(fs, " ") + ")"
	case *types.Array:
		return "((as const " + s + ") " + e.zeroOf(u.Elem()) + ")"
	}
	return "0"
}

func zeroOfSort(s string) string {
	switch s {
	case "Int":
		return "0"
	case "Bool":
		return "false"
	case "Real":
		return "0.0"
	case "Str":
		return "str_empty"
	case "Ref":
		return "nil"
	case "Iface":
		return "nilI"
	case "Slice":
		return "(mkslice nil 0 0 0)"
	case "Unit":
		return "unit"
	}
	return ""
}

// ---------- components ----------

func (e *Enc) comp(name, srt, kind, fam string) *Comp {
	if c, ok := e.comps[name]; ok {
		return c
	}
	c := &Comp{Name: name, Sort: srt, Kind: kind, Fam: fam}
	e.comps[name] = c
	e.compOrder = append(e.compOrder, name)
	if kind != "local" {
		// entry version
		e.hdr = append(e.hdr, fmt.Sprintf("(declare-const %s.0 %s)", name, srt))
		e.entryWF(c)
	}
	return c
}

// entryWF emits well-formedness facts of the entry version of a component into the header.
func (e *Enc) entryWF(c *Comp) {
	for _, a := range e.wfFacts(c, c.Name+".0") {
		e.hdr = append(e.hdr, "(assert "+a+")")
	}
	if c.Kind != "alloc" {
		e.allocComp()
		for _, a := range e.closureFacts(c, c.Name+".0", "alloc.0") {
			e.hdr = append(e.hdr, "(assert "+a+")")
		}
	}
}

// closureFacts: references stored in the heap point to allocated objects (or nil), and stored
// slice headers are well formed.
func (e *Enc) closureFacts(c *Comp, sym, alloc string) []string {
	// Disabled: global closure quantifiers made solver times unstable (seconds to timeouts).
	// The same facts are instead asserted as ground instances wherever code or a specification
	// reads a reference or slice header from the heap (typeFacts / specLoadFact).
	if !quantifiedClosure {
		return nil
	}
	var idx []string  // quantified variables
	var cell string
	switch c.Kind {
	case "field", "cell":
		idx = []string{"(o Ref)"}
		cell = "(select " + sym + " o)"
	case "map-v":
		ks, _ := arraySorts(strings.TrimSuffix(strings.TrimPrefix(c.Sort, "(Array Ref "), ")"))
		idx = []string{"(o Ref)", "(k " + ks + ")"}
		cell = "(select (select " + sym + " o) k)"
	case "slice":
		idx = []string{"(o Ref)", "(i Int)"}
		cell = "(select (select " + sym + " o) i)"
	default:
		return nil
	}
	vs := valueSortOf(c)
	switch vs {
	case "Ref":
		return []string{fmt.Sprintf("(forall (%s) (! %s :pattern (%s)))", strings.Join(idx, " "), isAlloc(alloc, cell), cell)}
	case "Slice":
		return []string{fmt.Sprintf("(forall (%s) (! (and %s (>= (s_len %s) 0) (>= (s_off %s) 0) (>= (s_cap %s) (s_len %s))) :pattern (%s)))",
			strings.Join(idx, " "), alloc, cell, cell, cell, cell, cell, cell)}
	}
	return nil
}

var quantifiedClosure = false

// specLoadFact: ground closure fact for a heap read made by a specification.
func (e *Enc) specLoadFact(term, sort string, st *St) {
	if strings.Contains(term, "?") {
		return // mentions a bound variable
	}
	a := e.get(st, e.allocComp())
	switch sort {
	case "Ref":
		e.assume(isAlloc(a, term))
	case "Slice":
		e.assume(fmt.Sprintf("(and %s (>= (s_len %s) 0) (>= (s_off %s) 0) (>= (s_cap %s) (s_len %s)) (=> (= (s_arr %s) nil) (= (s_cap %s) 0)))", isAlloc(a, "(s_arr "+term+")"), term, term, term, term, term, term))
	}
}

func valueSortOf(c *Comp) string {
	switch c.Kind {
	case "field", "cell":
		_, v := arraySorts(c.Sort)
		return v
	case "map-v", "slice":
		_, inner := arraySorts(c.Sort)
		_, v := arraySorts(inner)
		return v
	}
	return ""
}

// assumeClosed re-establishes the heap closure facts for components havocked in st.
func (e *Enc) assumeClosed(st *St, comps []*Comp) {
	a := e.get(st, e.allocComp())
	for _, c := range comps {
		for _, f := range e.closureFacts(c, e.get(st, c), a) {
			e.assume(f)
		}
	}
}

func (e *Enc) wfFacts(c *Comp, sym string) []string {
	switch c.Kind {
	case "map-l":
		return []string{
			fmt.Sprintf("(forall ((m Ref)) (! (>= (select %s m) 0) :pattern ((select %s m))))", sym, sym),
			fmt.Sprintf("(= (select %s nil) 0)", sym),
		}
	}
	return nil
}

func (e *Enc) get(st *St, c *Comp) string {
	if v, ok := st.v[c.Name]; ok {
		return v
	}
	if c.Kind == "local" {
		// never stored: zero
		return c.Zero
	}
	return c.Name + ".0"
}

func (e *Enc) set(st *St, c *Comp, term string) {
	st.v[c.Name] = e.defineFresh(c.Name, c.Sort, term)
}

func (e *Enc) havocComp(st *St, c *Comp, reach string) string {
	n := e.fresh(c.Name)
	e.declare(n, c.Sort)
	st.v[c.Name] = n
	for _, a := range e.wfFacts(c, n) {
		e.assume(a)
	}
	return n
}

// field component for struct type S field index i.
func (e *Enc) fieldComp(st types.Type, idx int) *Comp {
	u := st.Underlying().(*types.Struct)
	f := u.Field(idx)
	sn := e.structName(st)
	name := "F_" + sn + "_" + sanitize(f.Name())
	return e.comp(name, "(Array Ref "+e.sortOf(f.Type())+")", "field", "F:"+sn+"."+f.Name())
}

func mapKey(m *types.Map) string { return sanitize(typeStr(m)) }

func (e *Enc) mapComps(m *types.Map) (d, v, l *Comp) {
	k := mapKey(m)
	ks, vs := e.sortOf(m.Key()), e.sortOf(m.Elem())
	fam := "M:" + typeStr(m)
	d = e.comp("MD_"+k, "(Array Ref (Array "+ks+" Bool))", "map-d", fam)
	v = e.comp("MV_"+k, "(Array Ref (Array "+ks+" "+vs+"))", "map-v", fam)
	l = e.comp("ML_"+k, "(Array Ref Int)", "map-l", fam)
	// link facts for entry versions are emitted via mapWF at use sites
	key := "mapwf0_" + k
	if !e.hdrSeen[key] {
		e.hdrSeen[key] = true
		for _, a := range e.mapLinkFacts(d.Name+".0", l.Name+".0", ks) {
			e.hdr = append(e.hdr, "(assert "+a+")")
		}
	}
	return
}

func (e *Enc) mapLinkFacts(dsym, lsym, ks string) []string {
	wit := "map_wit_" + sanitize(ks)
	e.hdrOnce(wit, fmt.Sprintf("(declare-fun %s ((Array %s Bool)) %s)", wit, ks, ks))
	return []string{
		// a non-empty map has a witness key
		fmt.Sprintf("(forall ((m Ref)) (! (=> (> (select %s m) 0) (select (select %s m) (%s (select %s m)))) :pattern ((select %s m))))", lsym, dsym, wit, dsym, lsym),
		fmt.Sprintf("(forall ((m Ref) (k %s)) (! (=> (select (select %s m) k) (>= (select %s m) 1)) :pattern ((select (select %s m) k))))", ks, dsym, lsym, dsym),
		fmt.Sprintf("(forall ((k %s)) (! (not (select (select %s nil) k)) :pattern ((select (select %s nil) k))))", ks, dsym, dsym),
	}
}

// mapLenFact: ground link between the length and the domain of one particular map in one state
// (emitted where len(m) is read; the global link facts only cover havocked symbols, not the
// arrays obtained from them by insertions and deletions).
func (e *Enc) mapLenFact(mt *types.Map, m string, st *St) {
	if strings.Contains(m, "?") {
		return
	}
	d, _, l := e.mapComps(mt)
	ks := e.sortOf(mt.Key())
	dv, lv := e.get(st, d), e.get(st, l)
	key := "lenfact|" + dv + "|" + lv + "|" + m
	if e.lenFactSeen == nil {
		e.lenFactSeen = map[string]bool{}
	}
	if e.lenFactSeen[key] {
		return
	}
	e.lenFactSeen[key] = true
	wit := "map_wit_" + sanitize(ks)
	e.hdrOnce(wit, fmt.Sprintf("(declare-fun %s ((Array %s Bool)) %s)", wit, ks, ks))
	{
		// keep ite-terms (also behind define-fun names) out of the pattern
		mn := e.fresh("lenmap")
		e.declare(mn, "Ref")
		e.assume(eq(mn, m))
		m = mn
	}
	e.assume(fmt.Sprintf("(and (>= (select %s %s) 0) (=> (> (select %s %s) 0) (select (select %s %s) (%s (select %s %s)))) (forall ((k %s)) (! (=> (select (select %s %s) k) (>= (select %s %s) 1)) :pattern ((select (select %s %s) k)))))",
		lv, m, lv, m, dv, m, wit, dv, m, ks, dv, m, lv, m, dv, m))
}

func (e *Enc) sliceComp(elem types.Type) *Comp {
	k := sanitize(typeStr(elem))
	return e.comp("SE_"+k, "(Array Ref (Array Int "+e.sortOf(elem)+"))", "slice", "S:"+typeStr(elem))
}

func (e *Enc) cellComp(t types.Type) *Comp {
	k := sanitize(typeStr(t))
	return e.comp("Cell_"+k, "(Array Ref "+e.sortOf(t)+")", "cell", "C:"+typeStr(t))
}

// Allocation is a counter: object o is allocated in a state iff its (fixed) allocation time
// atime(o) is below the state's counter. "Allocation only grows" is then a scalar inequality
// instead of a quantified axiom per havoc (those chains dominated instantiation counts).
// allocCounter selects the counter representation (contract directive alloc-counter); the
// default is the array representation, which keeps integer arithmetic out of queries that are
// hard for other reasons (the score sums).
var allocCounter = false

func (e *Enc) allocComp() *Comp {
	if allocCounter {
		e.hdrOnce("atime", "(declare-fun atime (Ref) Int)\n(declare-fun isalloc (Int Ref) Bool)\n(assert (forall ((a Int) (o Ref)) (! (= (isalloc a o) (< (atime o) a)) :pattern ((isalloc a o)))))\n(assert (< (atime nil) 0))")
		return e.comp("alloc", "Int", "alloc", "alloc")
	}
	return e.comp("alloc", "(Array Ref Bool)", "alloc", "alloc")
}

func isAlloc(a, o string) string {
	if allocCounter {
		return "(isalloc " + a + " " + o + ")"
	}
	return "(select " + a + " " + o + ")"
}

// allocNew: r is a fresh object in state a; returns the new allocation state term and the fact.
func allocNew(a, r string) (fact, next string) {
	if allocCounter {
		return "(= (atime " + r + ") " + a + ")", "(+ " + a + " 1)"
	}
	return "(not (select " + a + " " + r + "))", "(store " + a + " " + r + " true)"
}
func (e *Enc) clockComp() *Comp { return e.comp("clock", "Int", "clock", "G:clock") }

func (e *Enc) globalComp(g *ssa.Global) *Comp {
	t := g.Type().(*types.Pointer).Elem()
	name := "G_" + sanitize(shortPkg(g.Pkg.Pkg.Path())) + "_" + sanitize(g.Name())
	c := e.comp(name, e.sortOf(t), "global", "G:"+name)
	if !e.hdrSeen["sentinel:"+name] && e.w.sentinelErr(g) {
		e.hdrSeen["sentinel:"+name] = true
		// package-level error created once by errors.New in init and never reassigned:
		// a non-nil constant distinct from every other sentinel
		e.hdr = append(e.hdr, fmt.Sprintf("(assert (not (= %s.0 nilI)))", name))
		for _, o := range e.sentinels {
			e.hdr = append(e.hdr, fmt.Sprintf("(assert (not (= %s.0 %s.0)))", name, o))
		}
		e.sentinels = append(e.sentinels, name)
	}
	return c
}

func (e *Enc) ghostComp(name string) *Comp {
	g := e.cs.Ghosts[name]
	if g == nil {
		return nil
	}
	srt, _ := e.specSort(g.Sort, g.Pkg, token.NoPos)
	return e.comp("ghost_"+name, srt, "ghost", "G:"+name)
}

// ---------- constants ----------

func (e *Enc) strConst(s string) string {
	if s == "" {
		return "str_empty"
	}
	if c, ok := e.strConsts[s]; ok {
		return c
	}
	c := fmt.Sprintf("strc_%d", len(e.strConsts))
	e.hdr = append(e.hdr, fmt.Sprintf("(declare-const %s Str) ; %q", c, truncate(s, 40)))
	e.hdr = append(e.hdr, fmt.Sprintf("(assert (= (strlen %s) %d))", c, len(s)))
	for _, o := range e.strOrder {
		e.hdr = append(e.hdr, fmt.Sprintf("(assert (not (= %s %s)))", c, e.strConsts[o]))
	}
	e.strConsts[s] = c
	e.strOrder = append(e.strOrder, s)
	return c
}

func truncate(s string, n int) string {
	s = strings.ReplaceAll(s, "\n", " ")
	if len(s) > n {
		return s[:n]
	}
	return s
}

func smtInt(v string) string {
	if strings.HasPrefix(v, "-") {
		return "(- " + v[1:] + ")"
	}
	return v
}

func (e *Enc) constVal(c *ssa.Const) Val {
	t := c.Type()
	s := e.sortOf(t)
	if c.Value == nil {
		return Val{T: e.zeroOf(t), S: s, Typ: t}
	}
	switch c.Value.Kind() {
	case constant.Bool:
		if constant.BoolVal(c.Value) {
			return Val{T: "true", S: "Bool", Typ: t}
		}
		return Val{T: "false", S: "Bool", Typ: t}
	case constant.String:
		return Val{T: e.strConst(constant.StringVal(c.Value)), S: "Str", Typ: t}
	case constant.Int:
		if s == "Real" {
			return Val{T: smtReal(c.Value), S: "Real", Typ: t}
		}
		return Val{T: smtInt(c.Value.ExactString()), S: "Int", Typ: t}
	case constant.Float:
		if s == "Int" {
			f, _ := constant.Float64Val(c.Value)
			return Val{T: smtInt(fmt.Sprintf("%d", int64(f))), S: "Int", Typ: t}
		}
		return Val{T: smtReal(c.Value), S: "Real", Typ: t}
	}
	return Val{T: e.zeroOf(t), S: s, Typ: t}
}

func smtReal(v constant.Value) string {
	// exact rational
	r := constant.ToFloat(v)
	if r.Kind() == constant.Unknown {
		return "0.0"
	}
	num := constant.Num(r)
	den := constant.Denom(r)
	if num.Kind() == constant.Unknown || den.Kind() == constant.Unknown {
		f, _ := constant.Float64Val(v)
		return fmt.Sprintf("%f", f)
	}
	ns := num.ExactString()
	ds := den.ExactString()
	neg := false
	if strings.HasPrefix(ns, "-") {
		neg = true
		ns = ns[1:]
	}
	var t string
	if ds == "1" {
		t = ns + ".0"
	} else {
		t = "(/ " + ns + ".0 " + ds + ".0)"
	}
	if neg {
		return "(- " + t + ")"
	}
	return t
}

func (e *Enc) typeID(t types.Type) int {
	k := typeStr(t)
	if id, ok := e.typeIDs[k]; ok {
		return id
	}
	id := len(e.typeIDs) + 1
	e.typeIDs[k] = id
	return id
}

// boxFns returns (box, unbox) function names for concrete type t, declaring them.
func (e *Enc) boxFns(t types.Type) (string, string) {
	k := sanitize(typeStr(t))
	s := e.sortOf(t)
	id := e.typeID(t)
	e.hdrOnce("box_"+k, fmt.Sprintf(`(declare-fun box_%s (%s) Iface)
(declare-fun unbox_%s (Iface) %s)
(assert (forall ((v %s)) (! (and (= (typeof (box_%s v)) %d) (= (unbox_%s (box_%s v)) v)) :pattern ((box_%s v)))))`, k, s, k, s, s, k, id, k, k, k))
	return "box_" + k, "unbox_" + k
}

// uninterpreted function helper
func (e *Enc) ufun(name string, argSorts []string, ret string) string {
	e.hdrOnce("uf_"+name, fmt.Sprintf("(declare-fun %s (%s) %s)", name, strings.Join(argSorts, " "), ret))
	return name
}

// ---------- obligations ----------

func (e *Enc) oblName(base string) string {
	e.oblNames[base]++
	if n := e.oblNames[base]; n > 1 {
		return fmt.Sprintf("%s~%d", base, n)
	}
	return base
}

func (e *Enc) addObl(kind, label, reach, goal string, pos token.Pos, desc string) *Obl {
	name := e.oblName(e.topName + "#" + kind + ":" + label)
	o := &Obl{Name: name, Kind: kind, Prefix: len(e.out), Goal: goal, Reach: reach, Pos: pos, Desc: desc, Func: e.topName}
	o.CutAt = e.activeCut()
	e.obls = append(e.obls, o)
	return o
}

func (e *Enc) addCover(label, reach string) {
	name := e.oblName(e.topName + "#cover:" + label)
	o := &Obl{Name: name, Kind: "cover", Prefix: len(e.out), Goal: "false", Reach: reach, Cover: true, Func: e.topName}
	e.obls = append(e.obls, o)
}

// activeCut: the context barrier of the innermost cut loop whose body is being executed (by the
// current frame or by a frame that expanded the current one in place).
func (e *Enc) activeCut() int {
	for f := e.curFr; f != nil; f = f.caller {
		if f.curBlock == nil {
			continue
		}
		best := 0
		for _, li := range f.loops {
			if li.cutAt > 0 && li.blocks[f.curBlock] && li.cutAt > best {
				best = li.cutAt
			}
		}
		if best > 0 {
			return best
		}
	}
	return 0
}

var versionedSym = regexp.MustCompile(`![0-9]+`)

// keepBeforeCut: declarations and definitions always; assertions only if they speak about the
// entry state and parameters alone (no versioned or fresh symbol).
func keepBeforeCut(l string) bool {
	if !strings.HasPrefix(l, "(assert ") {
		return true
	}
	return !versionedSym.MatchString(l)
}

// query builds the SMT-LIB text for an obligation.
func (e *Enc) query(o *Obl, withModel bool) string {
	var b strings.Builder
	if withModel {
		b.WriteString("(set-option :produce-models true)\n")
	}
	b.WriteString("(set-logic ALL)\n")
	if len(e.hdr) > 0 {
		for _, hl := range strings.Split(e.hdr[0], "\n") { // base sorts and axioms
			if o.Cover && (strings.Contains(hl, "(forall ") || strings.Contains(hl, "(exists ")) {
				continue
			}
			b.WriteString(hl)
			b.WriteString("\n")
		}
	}
	for _, h := range e.dtHdr {
		b.WriteString(h)
		b.WriteString("\n")
	}
	for hi, h := range e.hdr {
		if hi == 0 {
			continue
		}
		if o.Cover && strings.Contains(h, "(forall ") {
			// covers are checked against the ground part of the context only (decidable)
			for _, hl := range strings.Split(h, "\n") {
				if !strings.Contains(hl, "(forall ") && !strings.Contains(hl, "(exists ") {
					b.WriteString(hl)
					b.WriteString("\n")
				}
			}
			continue
		}
		b.WriteString(h)
		b.WriteString("\n")
	}
	for li, l := range e.out[:o.Prefix] {
		if o.Cover && (strings.Contains(l, "(forall ") || strings.Contains(l, "(exists ")) {
			continue
		}
		if o.CutAt > 0 && li < o.CutAt && !keepBeforeCut(l) {
			continue
		}
		b.WriteString(l)
		b.WriteString("\n")
	}
	fmt.Fprintf(&b, "(assert %s)\n(assert (not %s))\n(check-sat)\n", o.Reach, o.Goal)
	if withModel {
		b.WriteString("(get-model)\n")
	}
	return b.String()
}

func and(xs ...string) string {
	var ys []string
	for _, x := range xs {
		if x == "true" || x == "" {
			continue
		}
		if x == "false" {
			return "false"
		}
		ys = append(ys, x)
	}
	if len(ys) == 0 {
		return "true"
	}
	if len(ys) == 1 {
		return ys[0]
	}
	return "(and " + strings.Join(ys, " ") + ")"
}

func or(xs ...string) string {
	var ys []string
	for _, x := range xs {
		if x == "false" || x == "" {
			continue
		}
		if x == "true" {
			return "true"
		}
		ys = append(ys, x)
	}
	if len(ys) == 0 {
		return "false"
	}
	if len(ys) == 1 {
		return ys[0]
	}
	return "(or " + strings.Join(ys, " ") + ")"
}

func not(x string) string {
	if x == "true" {
		return "false"
	}
	if x == "false" {
		return "true"
	}
	return "(not " + x + ")"
}

func implies(a, b string) string {
	if a == "true" {
		return b
	}
	return "(=> " + a + " " + b + ")"
}

func ite(c, a, b string) string {
	if c == "true" {
		return a
	}
	if c == "false" {
		return b
	}
	if a == b {
		return a
	}
	return "(ite " + c + " " + a + " " + b + ")"
}

func sel(a, i string) string        { return "(select " + a + " " + i + ")" }
func store(a, i, v string) string   { return "(store " + a + " " + i + " " + v + ")" }
func eq(a, b string) string         { return "(= " + a + " " + b + ")" }

func sortedKeys[V any](m map[string]V) []string {
	var ks []string
	for k := range m {
		ks = append(ks, k)
	}
	sort.Strings(ks)
	return ks
}

// realMul: multiplication of two symbolic reals is an uninterpreted function with commutativity
// and sign axioms (predictable, E-matching friendly); a literal factor keeps linear arithmetic.
func (e *Enc) realMul(a, b string) string {
	if isNumLit(a) || isNumLit(b) {
		return "(* " + a + " " + b + ")"
	}
	e.hdrOnce("rmul", `(declare-fun rmul (Real Real) Real)
(assert (forall ((a Real) (b Real)) (! (= (rmul a b) (rmul b a)) :pattern ((rmul a b)))))
(assert (forall ((a Real) (b Real)) (! (=> (or (= a 0.0) (= b 0.0)) (= (rmul a b) 0.0)) :pattern ((rmul a b)))))`)
	if e.topContract != nil && e.topContract.RmulSigns {
		e.hdrOnce("rmul-signs", `(assert (forall ((a Real) (b Real)) (! (and (=> (and (>= a 0.0) (>= b 0.0)) (>= (rmul a b) 0.0)) (=> (and (<= a 0.0) (<= b 0.0)) (>= (rmul a b) 0.0)) (=> (and (>= a 0.0) (<= b 0.0)) (<= (rmul a b) 0.0)) (=> (= a b) (>= (rmul a b) 0.0))) :pattern ((rmul a b)))))`)
	}
	e.note("multiplication of two symbolic float64 values is an uninterpreted commutative function with sign axioms (no other nonlinear facts are used)")
	return "(rmul " + a + " " + b + ")"
}

func isNumLit(t string) bool {
	t = strings.TrimSpace(t)
	if strings.HasPrefix(t, "(- ") && strings.HasSuffix(t, ")") {
		t = strings.TrimSuffix(strings.TrimPrefix(t, "(- "), ")")
	}
	if strings.HasPrefix(t, "(/ ") {
		return true
	}
	if t == "" {
		return false
	}
	for _, r := range t {
		if !(r >= '0' && r <= '9' || r == '.') {
			return false
		}
	}
	return true
}

package main

import (
	"fmt"
	"sort"

	"golang.org/x/tools/go/ssa"
)

// cmdDiag prints the dynamic call sites that make the mod analysis give up (Top).
func cmdDiag(args []string) {
	w, cs, mods := loadAll("/repo")
	if len(args) > 0 {
		for _, n := range args {
			fn := w.Funcs[n]
			if fn == nil {
				fmt.Println("not found", n)
				continue
			}
			ms := mods.of(fn)
			fmt.Println(n, "top:", ms.Top)
			if ms.Top {
				for f, ws := range mods.why {
					for w := range ws {
						fmt.Printf("   TOP-CAUSE %s: %s\n", shortFuncName(f), w)
					}
				}
			}
			for _, f := range ms.list() {
				fmt.Println("   ", f)
			}
		}
		return
	}
	_ = cs
	type site struct{ fn, name string }
	var sites []site
	for f := range mods.fn {
		for _, b := range f.Blocks {
			for _, ins := range b.Instrs {
				var c *ssa.CallCommon
				switch x := ins.(type) {
				case *ssa.Call:
					c = &x.Call
				case *ssa.Defer:
					c = &x.Call
				}
				if c == nil || c.IsInvoke() || c.StaticCallee() != nil {
					continue
				}
				if _, ok := c.Value.(*ssa.Builtin); ok {
					continue
				}
				if mods.resolveDyn(c.Value) != nil || mods.dynPure(f, c.Value) {
					continue
				}
				sites = append(sites, site{shortFuncName(f), dynName(c.Value)})
			}
		}
	}
	sort.Slice(sites, func(i, j int) bool { return sites[i].fn < sites[j].fn })
	for _, s := range sites {
		fmt.Printf("%-60s %s\n", s.fn, s.name)
	}
	ntop := 0
	for f, ms := range mods.fn {
		if ms.Top {
			ntop++
			_ = f
		}
	}
	fmt.Println("functions with Top:", ntop, "of", len(mods.fn), "world", len(w.Funcs))
}

package main

import (
	"regexp"
	"encoding/json"
	"flag"
	"fmt"
	"os"
	"path/filepath"
	"sort"
	"strconv"
	"strings"
	"time"
)

type KnownFinding struct {
	Property   string `json:"property"`
	Obligation string `json:"obligation"`
	What       string `json:"what"`
	Witness    string `json:"witness,omitempty"`
	Status     string `json:"status,omitempty"` // "open" or "fixed"
	Commit     string `json:"commit,omitempty"`
}

type KnownFindings struct {
	Findings []KnownFinding `json:"findings"`
	Fixed    []string       `json:"fixed"`
}

type Baseline struct {
	Property    string   `json:"property"`
	Functions   []string `json:"functions"`
	Obligations []string `json:"obligations"`
}

func verifDir() string {
	if d := os.Getenv("VERIF_DIR"); d != "" {
		return d
	}
	return "/verif"
}

func outDir() string {
	if d := os.Getenv("VERIF_OUT"); d != "" {
		return d
	}
	return verifDir()
}

func loadKnown() *KnownFindings {
	kf := &KnownFindings{}
	b, err := os.ReadFile(filepath.Join(verifDir(), "known_findings.json"))
	if err == nil {
		json.Unmarshal(b, kf)
	}
	return kf
}

func loadBaseline(prop string) *Baseline {
	b, err := os.ReadFile(filepath.Join(verifDir(), "baseline", prop+".json"))
	if err != nil {
		return nil
	}
	bl := &Baseline{}
	if json.Unmarshal(b, bl) != nil {
		return nil
	}
	return bl
}

type checkOutcome struct {
	prop        string
	tier        string
	funcs       []string
	results     []*SolveResult
	errs        []string
	assumptions map[string]bool
	byBackend   map[string]int
	solverTime  float64
	passes      int
	extra       map[string]any
	auditObls   int
	auditFail   []auditFailure
	auditNames  []string
}

type auditFailure struct {
	Name string
	Desc string
}

// effectOnly: the contract declares nothing but the cancellable effect.
func effectOnly(fc *FuncContract) bool {
	return fc.Cancellable && len(fc.Ensures) == 0 && len(fc.Requires) == 0 && !fc.Safe && len(fc.LoopInv) == 0 &&
		len(fc.CallAsserts) == 0 && len(fc.LoopStep) == 0 && len(fc.GhostEffects) == 0 && !fc.HasMod
}

// propertyFuncs lists the functions whose contracts carry the property.
func propertyFuncs(cs *Contracts, prop string) []string {
	var names []string
	for n, fc := range cs.Funcs {
		for _, p := range fc.Props {
			if p == prop {
				names = append(names, n)
			}
		}
	}
	sort.Strings(names)
	return names
}

func runProperty(w *World, cs *Contracts, mods *ModAnalysis, prop, tier string, scratch string) *checkOutcome {
	out := &checkOutcome{prop: prop, tier: tier, assumptions: map[string]bool{}, byBackend: map[string]int{}, extra: map[string]any{}}
	timeout := 10
	cross := false
	if tier == "thorough" {
		timeout = 60
		cross = true
	}
	out.funcs = propertyFuncs(cs, prop)
	for _, n := range out.funcs {
		fc := cs.Funcs[n]
		if fc.Trusted {
			out.assumptions["trusted contract (body not verified): "+n+" "+strings.Join(fc.Notes, "; ")] = true
			continue
		}
		if effectOnly(fc) {
			continue // only the effect audit applies
		}
		for _, note := range fc.Notes {
			if strings.HasPrefix(note, "ASSUMED") {
				out.assumptions[note] = true
			}
		}
		fr := encodeFunc(w, cs, mods, n)
		for _, e := range fr.Errs {
			out.errs = append(out.errs, e)
		}
		if fr.Enc == nil {
			continue
		}
		for a := range fr.Enc.assumptions {
			out.assumptions[a] = true
		}
		noRetry := map[string]bool{}
		for _, f := range loadKnown().Findings {
			noRetry[f.Obligation] = true
		}
		rs := solveAll(fr, solveOpts{timeoutS: timeout, workers: 10, dir: scratch, crossCheck: cross, noRetry: noRetry})
		for _, r := range rs {
			if r.ToolError != "" {
				out.errs = append(out.errs, r.ToolError)
			}
			out.results = append(out.results, r)
			out.solverTime += r.Seconds
			if r.Solver != "" {
				out.byBackend[r.Solver]++
			}
		}
	}
	runAudits(w, cs, mods, prop, out)
	return out
}

func cmdCheck(args []string) {
	fs := flag.NewFlagSet("check", flag.ExitOnError)
	repo := fs.String("repo", "/repo", "repository")
	prop := fs.String("property", "", "property id")
	tier := fs.String("tier", "quick", "quick|thorough")
	fs.Parse(args)
	if t := os.Getenv("VERIF_TIER"); t == "quick" || t == "thorough" {
		*tier = t
	}
	seed := 0
	if s := os.Getenv("VERIF_SEED"); s != "" {
		seed, _ = strconv.Atoi(s)
	}
	if *prop == "" {
		fmt.Fprintln(os.Stderr, "check: --property required")
		os.Exit(2)
	}
	start := time.Now()
	w, cs, mods := loadAll(*repo)
	scratch, _ := os.MkdirTemp("", "gocv-"+*prop)
	defer os.RemoveAll(scratch)
	out := runProperty(w, cs, mods, *prop, *tier, scratch)
	code := report(out, seed, time.Since(start).Seconds(), *repo)
	os.RemoveAll(scratch)
	os.Exit(code)
}

func report(out *checkOutcome, seed int, wall float64, repo string) int {
	prop := out.prop
	kf := loadKnown()
	known := map[string]KnownFinding{}
	for _, f := range kf.Findings {
		if f.Property == prop && f.Status != "fixed" {
			known[f.Obligation] = f
		}
	}
	bl := loadBaseline(prop)
	nObl, nDis := 0, 0
	covers, coverOK := 0, 0
	var violations []*SolveResult
	var knownHit []KnownFinding
	seen := map[string]bool{}
	var samples []any
	var slowest []any
	sorted := append([]*SolveResult{}, out.results...)
	sort.Slice(sorted, func(i, j int) bool { return sorted[i].Seconds > sorted[j].Seconds })
	for i, r := range sorted {
		if i < 5 {
			slowest = append(slowest, map[string]any{"obligation": r.Obl.Name, "seconds": round3(r.Seconds), "solver": r.Solver})
		}
	}
	for _, r := range out.results {
		seen[r.Obl.Name] = true
		if r.Obl.Cover {
			covers++
			if r.Status == "cover-ok" {
				coverOK++
			}
			if r.Status == "cover-vacuous" {
				violations = append(violations, r)
			}
			continue
		}
		nObl++
		if r.Status == "proved" {
			nDis++
			if len(samples) < 6 {
				samples = append(samples, map[string]any{"obligation": r.Obl.Name, "clause": truncate(r.Obl.Desc, 200), "status": r.Status, "solver": r.Solver, "seconds": round3(r.Seconds)})
			}
			continue
		}
		if k, ok := known[r.Obl.Name]; ok {
			knownHit = append(knownHit, k)
			continue
		}
		violations = append(violations, r)
	}
	// audit (effect / permission) obligations
	nObl += out.auditObls
	nDis += out.auditObls - len(out.auditFail)
	for _, a := range out.auditNames {
		seen[a] = true
	}
	// drift: baseline obligations that were not generated
	var missing []string
	if bl != nil {
		for _, n := range bl.Obligations {
			if !seen[n] {
				missing = append(missing, n)
			}
		}
	}
	code := 0
	replayDir := filepath.Join(outDir(), "replays", prop)
	for _, k := range knownHit {
		fmt.Printf("KNOWN-FINDING: property=%s %s (%s)\n", prop, k.What, k.Obligation)
	}
	nviol := 0
	for _, r := range violations {
		os.MkdirAll(replayDir, 0o755)
		path := filepath.Join(replayDir, sanitize(truncate(r.Obl.Name, 120))+".json")
		rec := map[string]any{
			"property":   prop,
			"obligation": r.Obl.Name,
			"clause":     r.Obl.Desc,
			"function":   r.Obl.Func,
			"status":     r.Status,
			"solver":     r.Solver,
			"answers":    r.Answers,
			"solver_output": truncate2(r.Raw, 20000),
			"replayed_on_real_code": false,
			"note": "the verifier could not discharge this obligation generated from the current source; no concrete failing input was replayed",
		}
		if r.Obl.Pos.IsValid() {
			rec["position"] = posString(r)
		}
		suffix := " no-failing-input-found"
		if conf, info := tryReplay(r, repo); conf {
			rec["replayed_on_real_code"] = true
			rec["replay"] = info
			rec["note"] = "counterexample replayed on the real code"
			suffix = ""
		} else if info != nil {
			rec["replay_attempt"] = info
		}
		b, _ := json.MarshalIndent(rec, "", " ")
		os.WriteFile(path, b, 0o644)
		fmt.Printf("VIOLATION property=%s replay=%s%s\n", prop, path, suffix)
		nviol++
		code = 1
	}
	for _, a := range out.auditFail {
		os.MkdirAll(replayDir, 0o755)
		if k, ok := known[a.Name]; ok {
			fmt.Printf("KNOWN-FINDING: property=%s %s (%s)\n", prop, k.What, k.Obligation)
			continue
		}
		path := filepath.Join(replayDir, sanitize(truncate(a.Name, 120))+".json")
		rec := map[string]any{"property": prop, "obligation": a.Name, "clause": a.Desc, "status": "failed (effect/permission audit)", "replayed_on_real_code": false}
		b, _ := json.MarshalIndent(rec, "", " ")
		os.WriteFile(path, b, 0o644)
		fmt.Printf("VIOLATION property=%s replay=%s no-failing-input-found\n", prop, path)
		nviol++
		code = 1
	}
	if len(out.errs) > 0 {
		for _, e := range out.errs {
			if strings.Contains(e, "unknown identifier") || strings.Contains(e, "contract drift") || strings.Contains(e, "no such call in this function") {
				fmt.Fprintln(os.Stderr, "CONTRACT-DRIFT:", e, "(a contract in /repo/*_verif.go refers to code that no longer exists under that name - e.g. a renamed local, a removed call or a renumbered loop; the contract needs maintenance; this is NOT a property violation)")
				continue
			}
			fmt.Fprintln(os.Stderr, "TOOL-ERROR:", e)
		}
		if code == 0 {
			code = 2
		}
	}
	if len(missing) > 0 {
		// a call-site clause that names the k-th call of a callee ("at call f#k assert ...") speaks
		// about an action the property requires: if that call site no longer exists the required
		// action is gone
		reSuffix := regexp.MustCompile(`#[0-9]+$`)
		for _, m := range missing {
			if strings.Contains(m, "#callsite:") && !reSuffix.MatchString(m) {
				if _, ok := known[m]; ok {
					continue
				}
				os.MkdirAll(replayDir, 0o755)
				path := filepath.Join(replayDir, sanitize(truncate(m, 120))+".json")
				rec := map[string]any{"property": prop, "obligation": m, "status": "required call site missing",
					"clause": "the contract names this call site explicitly (at call <callee>#k); the current source has no such call, so the action the clause guards is no longer performed",
					"replayed_on_real_code": false}
				b, _ := json.MarshalIndent(rec, "", " ")
				os.WriteFile(path, b, 0o644)
				fmt.Printf("VIOLATION property=%s replay=%s no-failing-input-found\n", prop, path)
				nviol++
				code = 1
			}
		}
		// obligations tied to the contract text itself must exist; call/loop-shaped ones may move
		hard := 0
		for _, m := range missing {
			if strings.Contains(m, "#ensures:") || strings.Contains(m, "#frame:") || strings.Contains(m, "#audit:") {
				hard++
			}
			fmt.Fprintln(os.Stderr, "DRIFT: baseline obligation not generated:", m)
		}
		if hard > 0 && code == 0 {
			code = 2
		}
	}
	if nObl == 0 && code == 0 {
		fmt.Fprintln(os.Stderr, "TOOL-ERROR: no obligations generated for", prop)
		code = 2
	}
	// evidence
	var assumptions []string
	for a := range out.assumptions {
		assumptions = append(assumptions, a)
	}
	sort.Strings(assumptions)
	assumptions = append(assumptions,
		"integers are mathematical (no machine overflow); float64 is modelled as real",
		"strings/byte contents are uninterpreted beyond equality and length",
		"sync.Mutex/RWMutex/Cond provide mutual exclusion and atomic release-and-wait (trusted)",
		"the VC generator /verif/gocv (SSA->SMT translation, memory model) is part of the trusted base",
	)
	level := levelOf(prop)
	cov := map[string]any{
		// obligations listed as open known findings are reported separately: they are generated
		// and (still) fail, and are not part of what this check claims as proved
		"obligations":  nObl - len(knownHit),
		"discharged":   nDis,
		"obligations_generated": nObl,
		"checker_cmd":  "/verif/bin/gocv check --property " + prop + " --tier " + out.tier + " (go/ssa naive form -> SMT-LIB2; z3-new 5.1.0 / cvc5 1.0.3 / z3 4.8.12 raced per obligation)",
		"trusted_base": []string{"gocv VC generator", "z3/cvc5", "go/ssa (x/tools v0.29.0)", "sync primitives", "module dependencies (libp2p host, crypto, gogo-protobuf, msgio)"},
		"functions_under_contract": out.funcs,
		"by_backend":   out.byBackend,
		"solver_time_s": round3(out.solverTime),
		"slowest":      slowest,
		"vacuity_covers": map[string]int{"generated": covers, "sat": coverOK},
		"samples":      samples,
		"known_findings_reproduced": len(knownHit),
		"baseline_missing": missing,
		"audit_obligations": out.auditObls,
		"evaluations": nObl - len(knownHit),
		"distinct_nontrivial": nDis,
		"rule": "one evaluation = one proof obligation generated from the SSA of a function under contract; distinct by obligation name; non-trivial = discharged by an SMT solver (unsat)",
		"explanation": "contract-based deductive verification: per-function verification conditions generated from go/ssa of the current working tree, contracts in /repo/*_verif.go, discharged by SMT",
	}
	for k, v := range out.extra {
		cov[k] = v
	}
	ev := map[string]any{
		"property_id": prop,
		"tier":        out.tier,
		"seed":        seed,
		"level":       level,
		"coverage":    cov,
		"assumptions": assumptions,
		"wall_s":      round3(wall),
		"violations":  nviol,
	}
	os.MkdirAll(filepath.Join(outDir(), "evidence"), 0o755)
	b, _ := json.MarshalIndent(ev, "", " ")
	os.WriteFile(filepath.Join(outDir(), "evidence", prop+".json"), b, 0o644)
	fmt.Fprintf(os.Stderr, "%s: %d/%d obligations discharged, %d violations, %d known findings, %.1fs\n", prop, nDis, nObl, nviol, len(knownHit), wall)
	return code
}

func levelOf(prop string) string {
	return "proof"
}

func round3(f float64) float64 { return float64(int(f*1000+0.5)) / 1000 }

func truncate2(s string, n int) string {
	if len(s) > n {
		return s[:n] + "\n...[truncated]"
	}
	return s
}

func posString(r *SolveResult) string { return "" }

// tryReplay is the hook for replaying a solver model on the real code (see replay.go).
func tryReplay(r *SolveResult, repo string) (bool, map[string]any) {
	return replayModel(r, repo)
}

// cmdBaseline records the obligations generated on the current tree as the baseline.
func cmdBaseline(args []string) {
	fs := flag.NewFlagSet("baseline", flag.ExitOnError)
	repo := fs.String("repo", "/repo", "repository")
	fs.Parse(args)
	w, cs, mods := loadAll(*repo)
	props := fs.Args()
	if len(props) == 0 {
		set := map[string]bool{}
		for _, fc := range cs.Funcs {
			for _, p := range fc.Props {
				set[p] = true
			}
		}
		for p := range set {
			props = append(props, p)
		}
		sort.Strings(props)
	}
	os.MkdirAll(filepath.Join(verifDir(), "baseline"), 0o755)
	for _, prop := range props {
		bl := &Baseline{Property: prop}
		bl.Functions = propertyFuncs(cs, prop)
		for _, n := range bl.Functions {
			if cs.Funcs[n].Trusted || effectOnly(cs.Funcs[n]) {
				continue
			}
			fr := encodeFunc(w, cs, mods, n)
			for _, o := range fr.Obls {
				if !o.Cover {
					bl.Obligations = append(bl.Obligations, o.Name)
				}
			}
		}
		out := &checkOutcome{prop: prop, assumptions: map[string]bool{}, extra: map[string]any{}, byBackend: map[string]int{}}
		runAudits(w, cs, mods, prop, out)
		for _, a := range out.auditNames {
			bl.Obligations = append(bl.Obligations, a)
		}
		sort.Strings(bl.Obligations)
		b, _ := json.MarshalIndent(bl, "", " ")
		os.WriteFile(filepath.Join(verifDir(), "baseline", prop+".json"), b, 0o644)
		fmt.Printf("%s: %d functions, %d obligations\n", prop, len(bl.Functions), len(bl.Obligations))
	}
}

#!/bin/bash
# Must-fail corpus: every patch under /verif/selftest/<prop>/ (and /verif/seeded/<id>/patch.diff)
# breaks property <prop> while compiling; the check for <prop> must exit 1 on the patched tree.
# usage: selftest/run.sh [prop ...]    (default: all)
set -u
export GOFLAGS=-mod=mod GOPROXY=off
cd /verif
props=("$@")
if [ ${#props[@]} -eq 0 ]; then props=($(ls selftest | grep '^C[0-9]*$')); fi
fail=0; n=0
for prop in "${props[@]}"; do
  for patch in selftest/$prop/*.patch; do
    [ -f "$patch" ] || continue
    n=$((n+1))
    wt=$(mktemp -d /tmp/gocv-selftest.XXXXXX)
    git -C /repo worktree add -q --detach "$wt" HEAD >/dev/null 2>&1 || { echo "worktree failed"; exit 2; }
    # carry uncommitted contract files too
    (cd /repo && git ls-files -o --exclude-standard -- '*_verif.go' | while read f; do mkdir -p "$wt/$(dirname $f)"; cp "$f" "$wt/$f"; done)
    # ... and every other uncommitted change of the working tree (the corpus is measured against
    # the current tree, not against HEAD)
    (cd /repo && git diff HEAD | git -C "$wt" apply 2>/dev/null)
    if ! git -C "$wt" apply "$PWD/$patch" 2>/tmp/gocv-apply.err; then
      echo "SELFTEST-ERROR $patch does not apply: $(cat /tmp/gocv-apply.err | head -2)"; fail=1
    else
      out=$(GOCV_NORETRY=1 VERIF_OUT="$wt/.verifout" /verif/bin/gocv check --repo "$wt" --property "$prop" --tier quick 2>&1); code=$?
      if [ $code -eq 1 ] && echo "$out" | grep -q "^VIOLATION property=$prop"; then
        echo "ok   $patch -> $(echo "$out" | grep -c '^VIOLATION') violation(s): $(echo "$out" | grep '^VIOLATION' | head -1 | sed 's/.*replays\/[^/]*\///' | cut -c1-90)"
      else
        echo "MISS $patch (exit $code)"; echo "$out" | tail -3; fail=1
      fi
    fi
    git -C /repo worktree remove --force "$wt" >/dev/null 2>&1; rm -rf "$wt"
  done
done
echo "selftest: $n patches, fail=$fail"
exit $fail

#!/bin/bash
# Must-fail corpus: every patch under /verif/selftest/<prop>/ (and /verif/seeded/<id>/patch.diff)
# breaks property <prop> while compiling; the check for <prop> must exit 1 on the patched tree.
# usage: selftest/run.sh [prop ...]    (default: all)
# VERIF_CORPUS_JOBS patches are replayed at a time (default 3), each in its own scratch worktree.
set -u
export GOFLAGS=-mod=mod GOPROXY=off
cd /verif
if [ "${1:-}" = "--one" ]; then
  # internal: replay one patch; prints one line
  prop="$2"; patch="$3"
  wt=$(mktemp -d /tmp/gocv-selftest.XXXXXX)
  okwt=0
  for try in 1 2 3 4 5 6; do
    if git -C /repo worktree add -q --detach "$wt" HEAD >/dev/null 2>&1; then okwt=1; break; fi
    sleep 1
  done
  [ $okwt -eq 1 ] || { echo "SELFTEST-ERROR $patch worktree failed"; rm -rf "$wt"; exit 0; }
  # carry uncommitted contract files too
  (cd /repo && git ls-files -o --exclude-standard -- '*_verif.go' | while read f; do mkdir -p "$wt/$(dirname $f)"; cp "$f" "$wt/$f"; done)
  # ... and every other uncommitted change of the working tree (the corpus is measured against
  # the current tree, not against HEAD)
  (cd /repo && git diff HEAD | git -C "$wt" apply 2>/dev/null)
  if ! git -C "$wt" apply "/verif/$patch" 2>"$wt/.apply.err"; then
    echo "SELFTEST-ERROR $patch does not apply: $(head -2 "$wt/.apply.err" | tr '\n' ' ')"
  else
    out=$(GOCV_NORETRY=1 VERIF_OUT="$wt/.verifout" /verif/bin/gocv check --repo "$wt" --property "$prop" --tier quick 2>&1); code=$?
    if [ $code -eq 1 ] && echo "$out" | grep -q "^VIOLATION property=$prop"; then
      echo "ok   $patch -> $(echo "$out" | grep -c '^VIOLATION') violation(s): $(echo "$out" | grep '^VIOLATION' | head -1 | sed 's/.*replays\/[^/]*\///' | cut -c1-90)"
    else
      echo "MISS $patch (exit $code) $(echo "$out" | tail -2 | tr '\n' ' ' | cut -c1-200)"
    fi
  fi
  git -C /repo worktree remove --force "$wt" >/dev/null 2>&1; rm -rf "$wt"
  exit 0
fi
props=("$@")
if [ ${#props[@]} -eq 0 ]; then props=($(ls selftest | grep '^C[0-9]*$')); fi
list=$(mktemp /tmp/gocv-selftest-list.XXXXXX)
for prop in "${props[@]}"; do
  for patch in selftest/$prop/*.patch; do
    [ -f "$patch" ] && echo "$prop $patch" >> "$list"
  done
done
n=$(wc -l < "$list")
res=$(xargs -a "$list" -P "${VERIF_CORPUS_JOBS:-3}" -L 1 /verif/selftest/run.sh --one)
rm -f "$list"
echo "$res"
fail=0
echo "$res" | grep -q -E '^(MISS|SELFTEST-ERROR) ' && fail=1
echo "selftest: $n patches, fail=$fail"
exit $fail

#!/usr/bin/env python3
"""mkpatch.py <out.patch> <file> <<< python-literal list of (old, new) pairs
Creates a unified diff against /repo's HEAD version of <file>."""
import sys, subprocess, ast, tempfile, os
out, rel = sys.argv[1], sys.argv[2]
pairs = ast.literal_eval(sys.stdin.read())
src = subprocess.check_output(['git','-C','/repo','show','HEAD:'+rel]).decode()
new = src
for old, rep in pairs:
    if new.count(old) != 1:
        sys.exit(f"pattern occurs {new.count(old)} times: {old!r}")
    new = new.replace(old, rep)
d = tempfile.mkdtemp()
os.makedirs(os.path.join(d,'a',os.path.dirname(rel)), exist_ok=True)
os.makedirs(os.path.join(d,'b',os.path.dirname(rel)), exist_ok=True)
open(os.path.join(d,'a',rel),'w').write(src)
open(os.path.join(d,'b',rel),'w').write(new)
r = subprocess.run(['diff','-u','a/'+rel,'b/'+rel],cwd=d,capture_output=True,text=True)
open(out,'w').write(r.stdout)
print(out, len(r.stdout.splitlines()), 'lines')

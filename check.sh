#!/bin/bash
# usage: check.sh <property> <quick|thorough>
# Runs the contract verifier for one property against /repo's current working tree.
set -u
export GOFLAGS=-mod=mod GOPROXY=off
unset GOTOOLCHAIN GOSUMDB 2>/dev/null || true
cd /verif
if [ ! -x /verif/bin/gocv ] || [ -n "$(find /verif/gocv -name '*.go' -newer /verif/bin/gocv 2>/dev/null | head -1)" ]; then
  (cd /verif/gocv && go build -o /verif/bin/gocv .) || { echo "TOOL-ERROR: gocv build failed" >&2; exit 2; }
fi
exec /verif/bin/gocv check --property "$1" --tier "${2:-quick}"

#!/bin/bash
# usage: check.sh <property> <quick|thorough>
# Runs the contract verifier for one property against /repo's current working tree.
# quick:    every obligation with a 10 s budget per solver race (+ one retry at 30 s).
# thorough: 60 s budgets, every solver's answer awaited and compared (a disagreement is not a
#           proof), and - only if the property held - the must-fail corpus of the property is
#           replayed on scratch worktrees of the CURRENT tree to measure that the contracts still
#           detect the recorded property-breaking changes; that measurement is added to the
#           evidence file (mutation_corpus) and never changes the exit status.
set -u
export GOFLAGS=-mod=mod GOPROXY=off
unset GOTOOLCHAIN GOSUMDB 2>/dev/null || true
cd /verif
if [ ! -x /verif/bin/gocv ] || [ -n "$(find /verif/gocv -name '*.go' -newer /verif/bin/gocv 2>/dev/null | head -1)" ]; then
  (cd /verif/gocv && go build -o /verif/bin/gocv .) || { echo "TOOL-ERROR: gocv build failed" >&2; exit 2; }
fi
prop="$1"; tier="${2:-quick}"
/verif/bin/gocv check --property "$prop" --tier "$tier"
code=$?
if [ "$tier" = "thorough" ] && [ $code -eq 0 ] && [ -d "/verif/selftest/$prop" ] && [ -z "${VERIF_NO_CORPUS:-}" ]; then
  res=$(VERIF_CORPUS_QUIET=1 /verif/selftest/run.sh "$prop" 2>&1)
  caught=$(echo "$res" | grep -c '^ok ')
  missed=$(echo "$res" | grep -c '^MISS ')
  skipped=$(echo "$res" | grep -c '^SELFTEST-ERROR ')
  python3 - "$prop" "$caught" "$missed" "$skipped" <<'PY'
import json,sys
prop,caught,missed,skipped=sys.argv[1],int(sys.argv[2]),int(sys.argv[3]),int(sys.argv[4])
p=f'/verif/evidence/{prop}.json'
try:
    e=json.load(open(p))
    e.setdefault('coverage',{})['mutation_corpus']={'patches_caught':caught,'patches_missed':missed,'patches_not_applicable_to_this_tree':skipped,
        'what':'each patch under /verif/selftest/<property>/ breaks the property while compiling; applied to a scratch worktree of the current tree, the quick check must report a violation'}
    json.dump(e,open(p,'w'),indent=1)
except Exception as ex:
    print('note: could not add mutation_corpus to evidence:',ex,file=sys.stderr)
PY
  echo "$prop: mutation corpus: $caught caught, $missed missed, $skipped not applicable" >&2
fi
exit $code

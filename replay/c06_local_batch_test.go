//go:build verif

package pubsub

import (
	"context"
	"testing"
	"time"
)

// Replay of obligation (*PubSub).publishMessageBatch#ensures:local-only-not-routed on the real
// code: a message added to a batch with WithLocalPublication(true) must reach in-process
// subscribers only (C06: a local-only publication is sent to no peer).
func TestVerifReplayC06LocalOnlyBatchMessageNotSent(t *testing.T) {
	ctx, cancel := context.WithCancel(context.Background())
	defer cancel()
	hosts := getDefaultHosts(t, 2)
	psubs := getGossipsubs(ctx, hosts)
	topics := make([]*Topic, 2)
	subs := make([]*Subscription, 2)
	for i, ps := range psubs {
		tp, err := ps.Join("t")
		if err != nil {
			t.Fatal(err)
		}
		topics[i] = tp
		if subs[i], err = tp.Subscribe(); err != nil {
			t.Fatal(err)
		}
	}
	connect(t, hosts[0], hosts[1])
	time.Sleep(2 * time.Second)
	var batch MessageBatch
	if err := topics[0].AddToBatch(ctx, &batch, []byte("local-only"), WithLocalPublication(true)); err != nil {
		t.Fatal(err)
	}
	if err := psubs[0].PublishBatch(&batch); err != nil {
		t.Fatal(err)
	}
	// the local subscriber must see it
	lctx, lcancel := context.WithTimeout(ctx, 2*time.Second)
	defer lcancel()
	if _, err := subs[0].Next(lctx); err != nil {
		t.Fatalf("local subscriber did not get the message: %v", err)
	}
	rctx, rcancel := context.WithTimeout(ctx, 2*time.Second)
	defer rcancel()
	if m, err := subs[1].Next(rctx); err == nil {
		t.Fatalf("VIOLATION-CONFIRMED: local-only batch message %q was delivered to remote peer %s", m.Data, hosts[1].ID())
	}
}

//go:build verif

package pubsub

import (
	"context"
	"testing"
	"time"
)

// Replays of the failed cancellable obligations of property C14 on the real code: after the
// context given to the constructor is cancelled, every API call must return in bounded time.

// (*PubSub).PublishBatch#cancellable:(*PubSub).PublishBatch:send#1
func TestVerifReplayC14PublishBatchAfterShutdown(t *testing.T) {
	ctx, cancel := context.WithCancel(context.Background())
	hosts := getDefaultHosts(t, 1)
	ps := getGossipsub(ctx, hosts[0])
	cancel()
	time.Sleep(200 * time.Millisecond) // let the event loop exit
	done := make(chan struct{})
	go func() {
		for i := 0; i < 4; i++ {
			var b MessageBatch
			_ = ps.PublishBatch(&b)
		}
		close(done)
	}()
	select {
	case <-done:
	case <-time.After(3 * time.Second):
		t.Fatalf("VIOLATION-CONFIRMED: PublishBatch blocks forever after shutdown (plain send on sendMessageBatch, nobody receives)")
	}
}

// (*Topic).Subscribe#cancellable:(*discover).Discover:send#1
func TestVerifReplayC14SubscribeWithDiscoveryAfterShutdown(t *testing.T) {
	ctx, cancel := context.WithCancel(context.Background())
	hosts := getDefaultHosts(t, 1)
	server := newDiscoveryServer()
	disc := &mockDiscoveryClient{hosts[0], server}
	ps := getGossipsub(ctx, hosts[0], WithDiscovery(disc))
	tp, err := ps.Join("t")
	if err != nil {
		t.Fatal(err)
	}
	cancel()
	time.Sleep(200 * time.Millisecond)
	done := make(chan struct{})
	go func() {
		for i := 0; i < 40; i++ {
			_, _ = tp.Subscribe()
		}
		close(done)
	}()
	select {
	case <-done:
	case <-time.After(3 * time.Second):
		t.Fatalf("VIOLATION-CONFIRMED: Topic.Subscribe blocks forever after shutdown when discovery is configured (plain send on the discovery queue, nobody receives)")
	}
}

// (*Subscription).Next#cancellable:(*Subscription).Next:select#1
func TestVerifReplayC14SubscriptionNextAfterShutdown(t *testing.T) {
	ctx, cancel := context.WithCancel(context.Background())
	hosts := getDefaultHosts(t, 1)
	ps := getGossipsub(ctx, hosts[0])
	sub, err := ps.Subscribe("t")
	if err != nil {
		t.Fatal(err)
	}
	done := make(chan error, 1)
	go func() {
		_, err := sub.Next(context.Background())
		done <- err
	}()
	time.Sleep(100 * time.Millisecond)
	cancel()
	select {
	case err := <-done:
		if err == nil {
			t.Fatalf("Next returned a message after shutdown")
		}
	case <-time.After(3 * time.Second):
		t.Fatalf("VIOLATION-CONFIRMED: Subscription.Next(context.Background()) is still blocked 3s after the pubsub context was cancelled (only the caller's context ends the wait)")
	}
}

// (*TopicEventHandler).NextPeerEvent#cancellable:(*TopicEventHandler).NextPeerEvent:select#1
func TestVerifReplayC14NextPeerEventAfterShutdown(t *testing.T) {
	ctx, cancel := context.WithCancel(context.Background())
	hosts := getDefaultHosts(t, 1)
	ps := getGossipsub(ctx, hosts[0])
	tp, err := ps.Join("t")
	if err != nil {
		t.Fatal(err)
	}
	h, err := tp.EventHandler()
	if err != nil {
		t.Fatal(err)
	}
	done := make(chan error, 1)
	go func() {
		_, err := h.NextPeerEvent(context.Background())
		done <- err
	}()
	time.Sleep(100 * time.Millisecond)
	cancel()
	select {
	case err := <-done:
		if err == nil {
			t.Fatalf("NextPeerEvent returned an event after shutdown")
		}
	case <-time.After(3 * time.Second):
		t.Fatalf("VIOLATION-CONFIRMED: TopicEventHandler.NextPeerEvent(context.Background()) is still blocked 3s after the pubsub context was cancelled")
	}
}

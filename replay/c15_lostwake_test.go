//go:build verif

package pubsub

import (
	"context"
	"testing"
	"time"
)

// Replay of obligation (*rpcQueue).Pop$1#held:rpcQueue.queueMu:dataAvailable.Broadcast on the
// real code: the cancellation of Pop's context is forced to land between Pop's ctx.Done()
// check and Cond.Wait (schedule point verifBeforeWait). If the AfterFunc callback broadcasts
// without holding queueMu the wake-up is lost and Pop stays blocked after cancellation.
func TestVerifReplayC15LostWakeup(t *testing.T) {
	q := newRpcQueue(4)
	ctx, cancel := context.WithCancel(context.Background())
	defer cancel()
	fired := false
	VerifBeforeWaitHook = func() {
		if fired {
			return
		}
		fired = true
		cancel()
		// give the AfterFunc goroutine time to run its Broadcast (or to block on the lock)
		time.Sleep(200 * time.Millisecond)
	}
	defer func() { VerifBeforeWaitHook = nil }()
	done := make(chan error, 1)
	go func() {
		_, err := q.Pop(ctx)
		done <- err
	}()
	select {
	case err := <-done:
		if err != ErrQueueCancelled {
			t.Fatalf("Pop returned %v, want ErrQueueCancelled", err)
		}
	case <-time.After(3 * time.Second):
		// unblock the goroutine so the test binary can exit
		q.Close()
		t.Fatalf("VIOLATION-CONFIRMED: Pop still blocked 3s after its context was cancelled (lost wake-up)")
	}
}

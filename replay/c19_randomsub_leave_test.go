//go:build verif

package pubsub

import (
	"testing"

	pb "github.com/libp2p/go-libp2p-pubsub/pb"
)

type verifEvtRecorder struct{ evts []*pb.TraceEvent }

func (r *verifEvtRecorder) Trace(evt *pb.TraceEvent) { r.evts = append(r.evts, evt) }

// Replay of obligation (*RandomSubRouter).Leave#ensures:leave-traced on the real code: leaving a
// topic under randomsub must hand the tracer one LEAVE event (and no JOIN).
func TestVerifReplayC19RandomSubLeave(t *testing.T) {
	rec := &verifEvtRecorder{}
	rs := &RandomSubRouter{tracer: &pubsubTracer{tracer: rec, pid: "self", idGen: newMsgIdGenerator()}}
	rs.Join("t")
	rs.Leave("t")
	if len(rec.evts) != 2 {
		t.Fatalf("expected 2 events, got %d", len(rec.evts))
	}
	if rec.evts[0].GetType() != pb.TraceEvent_JOIN {
		t.Fatalf("first event is %v, want JOIN", rec.evts[0].GetType())
	}
	if rec.evts[1].GetType() != pb.TraceEvent_LEAVE {
		t.Fatalf("VIOLATION-CONFIRMED: RandomSubRouter.Leave traced %v for topic %q, want LEAVE", rec.evts[1].GetType(), rec.evts[1].GetJoin().GetTopic())
	}
}

//go:build verif

package pubsub

import (
	"context"
	"testing"
	"time"

	"github.com/libp2p/go-libp2p/core/peer"
)

// Replay of obligation (*GossipSubRouter).Join#ensures:no-direct-member on the real code: a peer
// selected into the fanout of a topic and later configured as a direct peer must not be carried
// over into the mesh (and sent GRAFT) when the topic is joined.
func TestVerifReplayC07JoinDirectFanoutMember(t *testing.T) {
	ctx, cancel := context.WithCancel(context.Background())
	defer cancel()
	hosts := getDefaultHosts(t, 2)
	psubs := getGossipsubs(ctx, hosts)
	connect(t, hosts[0], hosts[1])
	const topicName = "verif-topic"
	// B subscribes, A only publishes (fanout)
	tb, err := psubs[1].Join(topicName)
	if err != nil {
		t.Fatal(err)
	}
	if _, err := tb.Subscribe(); err != nil {
		t.Fatal(err)
	}
	time.Sleep(500 * time.Millisecond)
	ta, err := psubs[0].Join(topicName)
	if err != nil {
		t.Fatal(err)
	}
	if err := ta.Publish(ctx, []byte("x")); err != nil {
		t.Fatal(err)
	}
	time.Sleep(200 * time.Millisecond)
	rt := psubs[0].rt.(*GossipSubRouter)
	b := hosts[1].ID()
	inFanout := false
	done := make(chan struct{})
	psubs[0].eval <- func() {
		_, inFanout = rt.fanout[topicName][b]
		rt.AddDirectPeer(peer.AddrInfo{ID: b, Addrs: hosts[1].Addrs()})
		close(done)
	}
	<-done
	if !inFanout {
		t.Skip("peer was not selected into the fanout; scenario not reached")
	}
	if _, err := ta.Subscribe(); err != nil { // joins the topic in the router
		t.Fatal(err)
	}
	time.Sleep(200 * time.Millisecond)
	inMesh, direct := false, false
	done2 := make(chan struct{})
	psubs[0].eval <- func() {
		_, inMesh = rt.mesh[topicName][b]
		_, direct = rt.direct[b]
		close(done2)
	}
	<-done2
	if inMesh && direct {
		t.Fatalf("VIOLATION-CONFIRMED: Join carried the direct peer %s from the fanout into the mesh of %q", b, topicName)
	}
}

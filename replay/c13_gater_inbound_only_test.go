//go:build verif

package pubsub

import (
	"context"
	"testing"

	"github.com/libp2p/go-libp2p/core/peer"
)

// Replay of obligation (*peerGater).removePeerStats#ensures:inbound-only-peer-forgotten on the
// real code: P only ever had an inbound stream (its statistics entry was created by a validation
// event); Q shares P's IP and has an outbound stream. When P's inbound stream closes, the gater
// keeps P's entry because the SHARED statistics object still counts Q's connection - and nothing
// ever removes it afterwards, not even Q's disconnect (property C13).
func TestVerifReplayC13GaterInboundOnlyColocated(t *testing.T) {
	ctx, cancel := context.WithCancel(context.Background())
	defer cancel()
	pg := newPeerGater(ctx, nil, DefaultPeerGaterParams(), nil)
	pg.getIP = func(peer.ID) string { return "10.0.0.1" }
	p, q := peer.ID("peer-p"), peer.ID("peer-q")
	pg.OnNewOutboundStream(q, GossipSubID_v11)
	pg.RejectMessage(&Message{ReceivedFrom: p}, RejectValidationFailed)
	pg.OnClosedIncomingStream(p, GossipSubID_v11)
	pg.Lock()
	_, afterClose := pg.peerStats[p]
	pg.Unlock()
	pg.OnClosedOutboundStream(q)
	pg.Lock()
	_, afterAll := pg.peerStats[p]
	pg.Unlock()
	if afterClose || afterAll {
		t.Fatalf("VIOLATION-CONFIRMED: gater keeps the entry of an inbound-only peer that shared an IP with a connected peer: after its stream closed=%v, after the other peer left too=%v", afterClose, afterAll)
	}
}

//go:build verif

package pubsub

import (
	"testing"
	"time"

	"github.com/libp2p/go-libp2p/core/peer"
)

// Replay of obligation (*peerScore).score#safe:div on the real code: a topic parameter set that
// TopicScoreParams.validate accepts (SkipAtomicValidation, time-in-mesh fields left at zero)
// must not make Score panic for a peer that is in the mesh.
func TestVerifReplayC10TimeInMeshDivZero(t *testing.T) {
	tp := &TopicScoreParams{
		SkipAtomicValidation:           true,
		TopicWeight:                    1,
		InvalidMessageDeliveriesWeight: -1,
		InvalidMessageDeliveriesDecay:  0.5,
	}
	if err := tp.validate(); err != nil {
		t.Fatalf("parameter set rejected: %v", err)
	}
	params := &PeerScoreParams{
		AppSpecificScore: func(peer.ID) float64 { return 0 },
		DecayInterval:    time.Second,
		DecayToZero:      0.01,
		Topics:           map[string]*TopicScoreParams{"t": tp},
	}
	ps := newPeerScore(params, nil)
	p := peer.ID("peer-a")
	ps.OnNewOutboundStream(p, GossipSubID_v11)
	ps.Graft(p, "t")
	defer func() {
		if r := recover(); r != nil {
			t.Fatalf("VIOLATION-CONFIRMED: Score panics for accepted parameters: %v", r)
		}
	}()
	_ = ps.Score(p)
}

//go:build verif

package pubsub

import (
	"context"
	"testing"
	"time"

	"github.com/libp2p/go-libp2p/p2p/net/connmgr"
)

// Replay of obligation (*GossipSubRouter).OnClosedOutboundStream#ensures:mesh-protection-released on
// the real code: A and B mesh on a topic (A's connection manager protects B with the tag
// pubsub:<topic>); B goes away; once A has dropped B from its mesh the protection must be gone
// too (property C13: no connection-manager protection installed by pubsub survives the peer).
func TestVerifReplayC13MeshProtectionAfterDisconnect(t *testing.T) {
	ctx, cancel := context.WithCancel(context.Background())
	defer cancel()
	hosts := getDefaultHosts(t, 2)
	psubs := getGossipsubs(ctx, hosts)
	cmgr, err := connmgr.NewConnManager(5, 10, connmgr.WithGracePeriod(time.Minute))
	if err != nil {
		t.Fatal(err)
	}
	defer cmgr.Close()
	rt := psubs[0].rt.(*GossipSubRouter)
	done := make(chan struct{})
	psubs[0].eval <- func() { rt.tagTracer.cmgr = cmgr; close(done) }
	<-done
	for _, ps := range psubs {
		if _, err := ps.Subscribe("t"); err != nil {
			t.Fatal(err)
		}
	}
	connect(t, hosts[0], hosts[1])
	b := hosts[1].ID()
	deadline := time.Now().Add(10 * time.Second)
	for !cmgr.IsProtected(b, "pubsub:t") {
		if time.Now().After(deadline) {
			t.Skip("mesh did not form")
		}
		time.Sleep(50 * time.Millisecond)
	}
	hosts[1].Close()
	inMesh := true
	for inMesh && time.Now().Before(deadline) {
		time.Sleep(100 * time.Millisecond)
		res := make(chan bool, 1)
		psubs[0].eval <- func() { _, ok := rt.mesh["t"][b]; _, known := rt.peers[b]; res <- ok || known }
		inMesh = <-res
	}
	if inMesh {
		t.Skip("peer not removed in time")
	}
	time.Sleep(200 * time.Millisecond)
	if cmgr.IsProtected(b, "pubsub:t") {
		t.Fatalf("VIOLATION-CONFIRMED: peer %s is gone from the router's peer table and mesh, but the connection manager still protects it with tag pubsub:t", b)
	}
}

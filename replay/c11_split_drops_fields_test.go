//go:build verif

package pubsub

import (
	"fmt"
	"testing"

	pb "github.com/libp2p/go-libp2p-pubsub/pb"
)

// Replay of the C11 obligations of (*RPC).split$1 on the real code: an RPC whose control part
// alone exceeds the limit is split on the slow path, which rebuilds fragments from
// subscriptions, GRAFT, PRUNE, IWANT and IHAVE only: IDONTWANT message IDs and the extension,
// partial-message and test-extension fields of the original are in no fragment.
func TestVerifReplayC11SplitDropsNewerFields(t *testing.T) {
	var ids []string
	for i := 0; i < 200; i++ {
		ids = append(ids, fmt.Sprintf("message-id-%04d-xxxxxxxxxxxxxxxx", i))
	}
	topic := "t"
	tr := true
	orig := &RPC{RPC: pb.RPC{
		Control: &pb.ControlMessage{
			Ihave:      []*pb.ControlIHave{{TopicID: &topic, MessageIDs: ids}},
			Idontwant:  []*pb.ControlIDontWant{{MessageIDs: []string{"dont-want-1", "dont-want-2"}}},
			Extensions: &pb.ControlExtensions{PartialMessages: &tr},
		},
		Partial: &pb.PartialMessagesExtension{TopicID: &topic, GroupID: []byte("g")},
	}}
	limit := 1024
	if orig.Size() <= limit {
		t.Fatal("test RPC is not oversized")
	}
	nIdw, nExt, nPartial, frags := 0, 0, 0, 0
	for f := range orig.split(limit) {
		frags++
		if f.Control != nil {
			for _, d := range f.Control.Idontwant {
				nIdw += len(d.MessageIDs)
			}
			if f.Control.Extensions != nil {
				nExt++
			}
		}
		if f.Partial != nil {
			nPartial++
		}
	}
	if nIdw != 2 || nExt != 1 || nPartial != 1 {
		t.Fatalf("VIOLATION-CONFIRMED: split into %d fragments lost content: IDONTWANT ids %d of 2, extensions control %d of 1, partial-message field %d of 1", frags, nIdw, nExt, nPartial)
	}
}

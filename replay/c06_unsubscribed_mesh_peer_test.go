//go:build verif

package pubsub

import (
	"context"
	"sync"
	"testing"
	"time"

	pb "github.com/libp2p/go-libp2p-pubsub/pb"
)

// Replay of obligation (*GossipSubRouter).rpcs$1#callsite:recipient-in-topic on the real code:
// a remote peer subscribes and GRAFTs (it joins our mesh), then announces that it is no longer
// subscribed WITHOUT sending PRUNE. The node no longer lists it as a topic peer, yet every
// later publication is still sent to it (as long as the topic has any other peer) (C06: never to a peer not known to be in the topic).
func TestVerifReplayC06UnsubscribedMeshPeerStillGetsMessages(t *testing.T) {
	ctx, cancel := context.WithCancel(context.Background())
	defer cancel()
	hosts := getDefaultHosts(t, 3)
	ps := getGossipsub(ctx, hosts[0])
	// a third, honest subscriber keeps the topic's peer map non-empty
	other := getGossipsub(ctx, hosts[2])
	if _, err := other.Subscribe("t"); err != nil {
		t.Fatal(err)
	}
	connect(t, hosts[0], hosts[2])
	const topic = "t"
	top, err := ps.Join(topic)
	if err != nil {
		t.Fatal(err)
	}
	if _, err := top.Subscribe(); err != nil {
		t.Fatal(err)
	}
	var mu sync.Mutex
	var write func(*pb.RPC)
	got := 0
	tr, fa := true, false
	tp := topic
	newMockGS(ctx, t, hosts[1], func(writeMsg func(*pb.RPC), irpc *pb.RPC) {
		mu.Lock()
		defer mu.Unlock()
		if write == nil {
			write = writeMsg
			writeMsg(&pb.RPC{Subscriptions: []*pb.RPC_SubOpts{{Subscribe: &tr, Topicid: &tp}},
				Control: &pb.ControlMessage{Graft: []*pb.ControlGraft{{TopicID: &tp}}}})
		}
		for _, m := range irpc.GetPublish() {
			if string(m.GetData()) == "after-unsubscribe" {
				got++
			}
		}
	})
	connect(t, hosts[0], hosts[1])
	b := hosts[1].ID()
	inMesh := func() (mesh, listed bool) {
		res := make(chan [2]bool, 1)
		ps.eval <- func() {
			rt := ps.rt.(*GossipSubRouter)
			_, m := rt.mesh[topic][b]
			_, l := ps.topics[topic][b]
			res <- [2]bool{m, l}
		}
		r := <-res
		return r[0], r[1]
	}
	deadline := time.Now().Add(10 * time.Second)
	for {
		m, l := inMesh()
		if m && l {
			break
		}
		if time.Now().After(deadline) {
			t.Skip("remote peer did not get into the mesh")
		}
		time.Sleep(50 * time.Millisecond)
	}
	mu.Lock()
	write(&pb.RPC{Subscriptions: []*pb.RPC_SubOpts{{Subscribe: &fa, Topicid: &tp}}})
	mu.Unlock()
	for {
		_, l := inMesh()
		if !l {
			break
		}
		if time.Now().After(deadline) {
			t.Skip("unsubscribe not processed")
		}
		time.Sleep(50 * time.Millisecond)
	}
	if err := top.Publish(ctx, []byte("after-unsubscribe")); err != nil {
		t.Fatal(err)
	}
	time.Sleep(500 * time.Millisecond)
	mu.Lock()
	n := got
	mu.Unlock()
	m, l := inMesh()
	t.Logf("after publish: received=%d listed=%v inMesh=%v", n, l, m)
	if n > 0 {
		t.Fatalf("VIOLATION-CONFIRMED: peer %s is not listed as a peer of topic %q (listed=%v, still in mesh=%v) but received %d publication(s)", b, topic, l, m, n)
	}
}

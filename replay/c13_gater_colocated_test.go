//go:build verif

package pubsub

import (
	"context"
	"testing"

	"github.com/libp2p/go-libp2p/core/peer"
)

// Replay of obligation (*peerGater).removePeerStats#ensures:outbound-closed-forgets on the real
// code: two peers behind the same IP share one statistics object; when the outbound stream of
// the first closes, the gater must forget that peer (property C13) even though the other peer
// is still connected - and it must not be left behind when the second one closes either.
func TestVerifReplayC13GaterColocatedPeerForgotten(t *testing.T) {
	ctx, cancel := context.WithCancel(context.Background())
	defer cancel()
	pg := newPeerGater(ctx, nil, DefaultPeerGaterParams(), nil)
	pg.getIP = func(peer.ID) string { return "10.0.0.1" }
	a, b := peer.ID("peer-a"), peer.ID("peer-b")
	pg.OnNewOutboundStream(a, GossipSubID_v11)
	pg.OnNewOutboundStream(b, GossipSubID_v11)
	pg.OnClosedOutboundStream(a)
	pg.Lock()
	_, stillA := pg.peerStats[a]
	pg.Unlock()
	pg.OnClosedOutboundStream(b)
	pg.Lock()
	_, laterA := pg.peerStats[a]
	_, laterB := pg.peerStats[b]
	n := len(pg.peerStats)
	pg.Unlock()
	if stillA || laterA || laterB || n != 0 {
		t.Fatalf("VIOLATION-CONFIRMED: gater keeps statistics entry of a disconnected peer that shared its IP: a after its own close=%v, a after both closed=%v, b=%v, entries=%d", stillA, laterA, laterB, n)
	}
}

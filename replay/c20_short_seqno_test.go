//go:build verif

package pubsub

import (
	"context"
	"fmt"
	"log/slog"
	"sync"
	"testing"

	pb "github.com/libp2p/go-libp2p-pubsub/pb"
	"github.com/libp2p/go-libp2p/core/peer"
)

type verifMemStore struct {
	mx sync.Mutex
	m  map[peer.ID][]byte
}

func (s *verifMemStore) Get(_ context.Context, p peer.ID) ([]byte, error) {
	s.mx.Lock()
	defer s.mx.Unlock()
	return s.m[p], nil
}
func (s *verifMemStore) Put(_ context.Context, p peer.ID, b []byte) error {
	s.mx.Lock()
	defer s.mx.Unlock()
	s.m[p] = b
	return nil
}

// Replay of obligation (*BasicSeqnoValidator).validate#safe:bounds (seqno decoding): a message
// whose sequence number is 1..7 bytes long must be handled without panic and ignored.
func TestVerifReplayC20ShortSeqno(t *testing.T) {
	for n := 1; n <= 7; n++ {
		func() {
			defer func() {
				if r := recover(); r != nil {
					t.Fatalf("VIOLATION-CONFIRMED: BasicSeqnoValidator panics on a %d-byte seqno: %v", n, r)
				}
			}()
			val := NewBasicSeqnoValidator(&verifMemStore{m: map[peer.ID][]byte{}}, slog.Default())
			m := &Message{Message: &pb.Message{From: []byte("author"), Seqno: make([]byte, n)}}
			for i := range m.Seqno {
				m.Seqno[i] = 0xff
			}
			res := val(context.Background(), peer.ID("fwd"), m)
			if res != ValidationIgnore {
				t.Fatalf("VIOLATION-CONFIRMED: %d-byte seqno got verdict %v, want ValidationIgnore", n, fmt.Sprint(res))
			}
		}()
	}
}

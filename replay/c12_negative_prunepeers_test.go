//go:build verif

package pubsub

import (
	"context"
	"testing"

	pb "github.com/libp2p/go-libp2p-pubsub/pb"
)

// Replay of obligation (*GossipSubRouter).handlePrune#pre:(*GossipSubRouter).pxConnect:wf on the
// real code: GossipSubParams.validate accepts a negative PrunePeers; with such a configuration a
// PRUNE carrying peer-exchange records makes pxConnect slice peers[:PrunePeers] and panic inside
// the event loop (C12: no remote input may crash the node).
func TestVerifReplayC12NegativePrunePeers(t *testing.T) {
	params := DefaultGossipSubParams()
	params.PrunePeers = -1
	if err := params.validate(); err != nil {
		t.Skipf("configuration rejected: %v", err) // the property holds: such a node cannot be built
	}
	ctx, cancel := context.WithCancel(context.Background())
	defer cancel()
	hosts := getDefaultHosts(t, 1)
	ps := getGossipsub(ctx, hosts[0], WithGossipSubParams(params))
	rt := ps.rt.(*GossipSubRouter)
	res := make(chan any, 1)
	ps.eval <- func() {
		defer func() { res <- recover() }()
		rt.pxConnect([]*pb.PeerInfo{{PeerID: []byte("some-peer")}})
	}
	if r := <-res; r != nil {
		t.Fatalf("VIOLATION-CONFIRMED: pxConnect panics under a configuration accepted by validate (PrunePeers=-1): %v", r)
	}
}

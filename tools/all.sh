#!/bin/bash
# rebuild, re-baseline (if "baseline" given) and run every claimed check
export GOFLAGS=-mod=mod GOPROXY=off
cd /verif/gocv && go build -o /verif/bin/gocv . || exit 2
cd /verif
props=$(python3 -c "import json;print(' '.join(sorted(json.load(open('/verif/tools/claims.json')).keys())))")
if [ "${1:-}" = "baseline" ]; then /verif/bin/gocv baseline $props 2>&1 | grep -v "^loaded" | grep -iv "functions," ; fi
rc=0
for p in $props; do ./check.sh $p quick 2>&1 | grep -v "^loaded" ; [ ${PIPESTATUS[0]} -ne 0 ] && rc=1; done
exit $rc

#!/usr/bin/env python3
"""Regenerates /verif/MANIFEST.json from the claims table below and validates it."""
import json, subprocess, os
props=[json.loads(l) for l in open('/verif/properties.jsonl')]
TECH='contract-based deductive verification (VCs generated from go/ssa of the real functions, contracts in /repo/*_verif.go, discharged by z3/cvc5)'
NOTE_BASE='Trusted: the gocv VC generator and memory model, z3/cvc5, go/ssa; mathematical integers; sync primitives (monitor rule); module dependencies uninterpreted. '
claims=json.load(open('/verif/tools/claims.json'))
hooks_commits=[l.split()[0] for l in subprocess.check_output(['git','-C','/repo','log','--format=%H %s']).decode().splitlines() if ' verif:' in ' '+l]
m={
 'version':1,
 'setup_cmd':'cd /verif/gocv && GOFLAGS=-mod=mod GOPROXY=off go build -o /verif/bin/gocv .',
 'hooks':{'guard':'verif','enable':'go build -tags verif: contract files /repo/*_verif.go are comment-only (//go:build verif); hooks_verif.go defines the schedule-point hook, hooks_noverif.go its empty production twin','baseline_off_cmd':'cd /repo && GOFLAGS=-mod=mod GOPROXY=off go test -vet=off -count=1 -timeout 25m ./...','source_commits':hooks_commits,'add_only':True},
 'engines':[{'name':'gocv','path':'/verif/gocv','serves_properties':sorted(claims.keys()),'kind_free_text':'contract-based deductive verifier for Go written for this task: VC generation over go/ssa (naive form) with contracts in //@ comments, per-obligation SMT queries raced on z3-new/cvc5/z3; replay drivers injected with go test -overlay'}],
 'checks':[],
 'not_applicable':[],
 'notes':'See DESIGN.md. Contracts live in /repo/*_verif.go behind build tag verif. known_findings.json lists recorded findings and fixed defects.'
}
for p in props:
    pid=p['id']
    if pid in claims:
        c=claims[pid]
        m['checks'].append({'property_id':pid,'quick_cmd':f'/verif/check.sh {pid} quick','thorough_cmd':f'/verif/check.sh {pid} thorough','evidence_file':f'/verif/evidence/{pid}.json','replay_cmd_template':'cat {path}','engine':'gocv','level_claimed':{'category':c.get('category','proof'),'text':c['text'],'design_ref':'DESIGN.md §3 '+pid},'level_note':NOTE_BASE+c.get('note',''),'technique':TECH})
    elif pid=='C01':
        m['not_applicable'].append({'property_id':pid,'reason':'multi-node liveness/convergence over topologies and schedules; no contract on one call or data structure can express it (per-node ingredients are decided under C02, C05, C06, C07)'})
    else:
        m['not_applicable'].append({'property_id':pid,'reason':'contracts for this property are not yet built in this revision (work in progress; DESIGN.md §6 build order)'})
json.dump(m,open('/verif/MANIFEST.json','w'),indent=1)
subprocess.check_call(['python3-vt','-c','''
import json,jsonschema,glob
jsonschema.validate(json.load(open("/verif/MANIFEST.json")),json.load(open("/root/.vp/MANIFEST.schema.json")))
for f in glob.glob("/verif/evidence/*.json"):
    jsonschema.validate(json.load(open(f)),json.load(open("/root/.vp/EVIDENCE.schema.json")))
print("manifest+evidence valid")'''])

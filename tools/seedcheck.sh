#!/bin/bash
# usage: tools/seedcheck.sh <id> [srcdir]
# Confirms a sub-agent's seeded change (compiles, demo fails with it / passes without it),
# stores it under /verif/seeded/<id>/ and runs the <id> check against a scratch worktree
# of /repo with the change applied.  The full existing suite is run with --suite.
set -u
export GOFLAGS=-mod=mod GOPROXY=off
id=$1; src=${2:-/tmp/seed_$id}; suite=${3:-}
sd=$src/_seed
[ -f $sd/patch.diff ] || { echo "no $sd/patch.diff"; exit 2; }
mkdir -p /verif/seeded/$id
cp $sd/patch.diff /verif/seeded/$id/patch.diff
cp $sd/demo_test.go /verif/seeded/$id/demo_test.go.txt
[ -f $sd/notes.md ] && cp $sd/notes.md /verif/seeded/$id/notes.md
tname=$(grep -o '^func Test[A-Za-z0-9_]*' $sd/demo_test.go | head -1 | sed 's/func //')
pkgdir=.
grep -q '^package timecache' $sd/demo_test.go && pkgdir=./timecache
wt=$(mktemp -d /tmp/gocv-seed.XXXXXX)
git -C /repo worktree add -q --detach "$wt" HEAD >/dev/null 2>&1 || { echo "worktree failed"; exit 2; }
(cd /repo && git ls-files -o --exclude-standard -- '*_verif.go' | while read f; do mkdir -p "$wt/$(dirname $f)"; cp "$f" "$wt/$f"; done)
(cd /repo && git diff -- '*_verif.go' | git -C "$wt" apply 2>/dev/null)
cd $wt
cp $sd/demo_test.go $pkgdir/zz_seed_demo_test.go
go test -vet=off -count=1 -timeout 300s -run "^$tname\$" $pkgdir >/tmp/seed_$id.orig.log 2>&1; orig=$?
git apply /verif/seeded/$id/patch.diff || { echo "patch does not apply"; exit 2; }
go build ./... ; build=$?
go test -vet=off -count=1 -timeout 300s -run "^$tname\$" $pkgdir >/tmp/seed_$id.mut.log 2>&1; mut=$?
rm $pkgdir/zz_seed_demo_test.go
suiteres=skipped
if [ "$suite" = "--suite" ]; then
  go test -vet=off -count=1 -timeout 25m ./... >/tmp/seed_$id.suite.log 2>&1 && suiteres=pass || suiteres=FAIL
fi
out=$(VERIF_OUT="$wt/.verifout" /verif/bin/gocv check --repo "$wt" --property "$id" --tier quick 2>&1); code=$?
nviol=$(echo "$out" | grep -c '^VIOLATION')
first=$(echo "$out" | grep '^VIOLATION' | head -3 | sed 's/.*replays\/[^/]*\///')
cd /verif
git -C /repo worktree remove --force "$wt" >/dev/null 2>&1; rm -rf "$wt"
python3 - "$id" "$tname" "$orig" "$build" "$mut" "$suiteres" "$code" "$nviol" "$first" <<'PY'
import json,sys
id,tname,orig,build,mut,suite,code,nviol,first=sys.argv[1:]
p=f'/verif/seeded/{id}/meta.json'
m={"property":id,"demo_test":tname,"demo_on_original":"pass" if orig=="0" else "FAIL","builds_with_change":build=="0",
   "demo_with_change":"fail" if mut!="0" else "PASSES(!)","existing_suite_with_change":suite,
   "check_exit":int(code),"check_violations":int(nviol),"check_first_violations":first.split("\n") if first else [],
   "detected": code=="1" and int(nviol)>0}
try:
    old=json.load(open(p))
    if suite=="skipped" and "existing_suite_with_change" in old: m["existing_suite_with_change"]=old["existing_suite_with_change"]
except Exception: pass
json.dump(m,open(p,'w'),indent=1)
print(json.dumps(m,indent=1))
PY

#!/usr/bin/env python3
"""Mutation sweep: applies the syntactic mutants listed by bin/mutsweep to scratch copies of /repo
and runs `gocv verify` on the mutated function (and its closures under contract).  A mutant is
'killed' when an obligation that is discharged on the unchanged tree no longer is.  Survivors are
listed for manual triage (many are equivalent or irrelevant to the properties).
usage: mutsweep.py [-j N] [-o out.jsonl] [func-substring ...]
Scratch copies live under /tmp/mutsweep-* and are removed at the end."""
import json, os, re, subprocess, sys, shutil, glob, tempfile, threading, queue, time

REPO = '/repo'
ENV = dict(os.environ, GOFLAGS='-mod=mod', GOPROXY='off')
for k in ('GOTOOLCHAIN', 'GOSUMDB'):
    ENV.pop(k, None)

def contracted():
    names = []
    for f in glob.glob(REPO + '/*_verif.go'):
        for l in open(f):
            m = re.match(r'//@ func (\S+)', l)
            if m:
                names.append(m.group(1))
    return names

def locate(names):
    """map source file -> {top-level func: [contracted names to verify]}"""
    idx = {}
    srcs = [f for f in glob.glob(REPO + '/*.go') if not f.endswith('_test.go') and not f.endswith('_verif.go')]
    decl = {}
    for f in srcs:
        for l in open(f):
            m = re.match(r'func (\((\w+) (\*?)(\w+)\) )?(\w+)\(', l)
            if m:
                if m.group(1):
                    n = ('(*%s).%s' if m.group(3) else '(%s).%s') % (m.group(4), m.group(5))
                else:
                    n = m.group(5)
                decl[n] = os.path.basename(f)
    for n in names:
        top = n.split('$')[0]
        if top in decl:
            idx.setdefault(decl[top], {}).setdefault(top, [])
            if n not in idx[decl[top]][top]:
                idx[decl[top]][top].append(n)
    return idx

def main():
    args = sys.argv[1:]
    jobs, out = 4, '/verif/mutsweep/results.jsonl'
    filt = []
    while args:
        a = args.pop(0)
        if a == '-j': jobs = int(args.pop(0))
        elif a == '-o': out = args.pop(0)
        else: filt.append(a)
    os.makedirs(os.path.dirname(out), exist_ok=True)
    idx = locate(contracted())
    muts = []
    for file, funcs in idx.items():
        tops = [t for t in funcs if not filt or any(x in t for x in filt)]
        if not tops: continue
        r = subprocess.run(['/verif/bin/mutsweep', REPO, file] + tops, capture_output=True, text=True)
        for l in r.stdout.splitlines():
            m = json.loads(l); m['targets'] = funcs[m['func']]; muts.append(m)
    done = set()
    if os.path.exists(out):
        for l in open(out):
            try:
                d = json.loads(l); done.add((d['file'], d['start'], d['end'], d['text']))
            except Exception: pass
    muts = [m for m in muts if (m['file'], m['start'], m['end'], m['text']) not in done]
    prio = ['pubsub.go', 'gossipsub.go', 'score.go', 'rpc_queue.go', 'peer_gater.go', 'gossip_tracer.go', 'topic.go', 'comm.go', 'mcache.go', 'floodsub.go', 'randomsub.go', 'subscription.go']
    muts.sort(key=lambda m: (prio.index(m['file']) if m['file'] in prio else len(prio), m['file'], m['start']))
    print(len(muts), 'mutants to run', file=sys.stderr)
    q = queue.Queue()
    for m in muts: q.put(m)
    lock = threading.Lock()
    outf = open(out, 'a')
    def worker(k):
        wd = tempfile.mkdtemp(prefix='mutsweep-')
        subprocess.run(['rsync', '-a', '--exclude', '.git', REPO + '/', wd + '/'], check=True)
        while True:
            try: m = q.get_nowait()
            except queue.Empty: break
            path = os.path.join(wd, m['file'])
            orig = open(os.path.join(REPO, m['file']), 'rb').read()
            new = orig[:m['start']] + m['text'].encode() + orig[m['end']:]
            open(path, 'wb').write(new)
            res = dict(m)
            b = subprocess.run(['go', 'build', '.'], cwd=wd, env=ENV, capture_output=True, text=True)
            if b.returncode != 0:
                res['status'] = 'nobuild'
            else:
                t0 = time.time()
                try:
                    v = subprocess.run(['/verif/bin/gocv', 'verify', '--repo', wd, '-timeout', '4'] + m['targets'], env=dict(ENV, GOCV_NORETRY='1'), capture_output=True, text=True, timeout=600)
                    o = v.stdout + v.stderr
                except subprocess.TimeoutExpired:
                    o = 'ERROR: timeout'
                killed = False; fails = []
                for l in o.splitlines():
                    mm = re.search(r'(\d+)/(\d+) obligations ok', l)
                    if mm and mm.group(1) != mm.group(2): killed = True
                    if 'ERROR' in l: killed = True; fails.append(l.strip()[:160])
                    mm = re.match(r'\s+(unknown|sat|FAIL\S*)\s+\S*\s*[\d.]+s (\S+)', l)
                    if mm: fails.append(mm.group(2))
                if not re.search(r'obligations ok', o): killed = True; fails.append('no result')
                res['status'] = 'killed' if killed else 'survived'
                res['fails'] = fails[:4]; res['secs'] = round(time.time() - t0, 1)
            open(path, 'wb').write(orig)
            with lock:
                outf.write(json.dumps(res) + '\n'); outf.flush()
        shutil.rmtree(wd, ignore_errors=True)
    ths = [threading.Thread(target=worker, args=(k,)) for k in range(jobs)]
    for t in ths: t.start()
    for t in ths: t.join()

main()

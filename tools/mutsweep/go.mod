module mutsweep

go 1.25

// mutsweep enumerates small syntactic mutants of the functions that are under contract, for
// measuring which behaviour changes the contracts notice. It only WRITES a list of byte-level
// replacements (JSON lines); tools/mutsweep.py applies them to scratch copies of the repository.
//
// usage: mutsweep <repo> <file.go> <func> [<func> ...]   (func as printed by gocv, e.g. (*T).m or f)
package main

import (
	"encoding/json"
	"fmt"
	"go/ast"
	"go/parser"
	"go/token"
	"os"
	"path/filepath"
	"strings"
)

type Mut struct {
	File  string `json:"file"`
	Func  string `json:"func"`
	Line  int    `json:"line"`
	Desc  string `json:"desc"`
	Start int    `json:"start"`
	End   int    `json:"end"`
	Text  string `json:"text"`
}

func fname(d *ast.FuncDecl) string {
	if d.Recv == nil || len(d.Recv.List) == 0 {
		return d.Name.Name
	}
	t := d.Recv.List[0].Type
	switch x := t.(type) {
	case *ast.StarExpr:
		if id, ok := x.X.(*ast.Ident); ok {
			return "(*" + id.Name + ")." + d.Name.Name
		}
	case *ast.Ident:
		return "(" + x.Name + ")." + d.Name.Name
	}
	return d.Name.Name
}

func main() {
	repo, file := os.Args[1], os.Args[2]
	want := map[string]bool{}
	for _, f := range os.Args[3:] {
		want[f] = true
	}
	path := filepath.Join(repo, file)
	src, err := os.ReadFile(path)
	if err != nil {
		panic(err)
	}
	fset := token.NewFileSet()
	f, err := parser.ParseFile(fset, path, src, parser.ParseComments)
	if err != nil {
		panic(err)
	}
	enc := json.NewEncoder(os.Stdout)
	off := func(p token.Pos) int { return fset.Position(p).Offset }
	for _, d := range f.Decls {
		fd, ok := d.(*ast.FuncDecl)
		if !ok || fd.Body == nil {
			continue
		}
		name := fname(fd)
		if !want[name] && !want["*"] {
			continue
		}
		emit := func(pos, end token.Pos, text, desc string) {
			enc.Encode(Mut{File: file, Func: name, Line: fset.Position(pos).Line, Desc: desc, Start: off(pos), End: off(end), Text: text})
		}
		isLog := func(e ast.Expr) bool {
			c, ok := e.(*ast.CallExpr)
			if !ok {
				return false
			}
			s := string(src[off(c.Fun.Pos()):off(c.Fun.End())])
			return strings.Contains(s, "logger.") || strings.HasPrefix(s, "log.") || strings.Contains(s, "fmt.")
		}
		ast.Inspect(fd.Body, func(n ast.Node) bool {
			switch x := n.(type) {
			case *ast.IfStmt:
				c := string(src[off(x.Cond.Pos()):off(x.Cond.End())])
				emit(x.Cond.Pos(), x.Cond.End(), "!("+c+")", "negate if: "+c)
			case *ast.ForStmt:
				if x.Cond != nil {
					c := string(src[off(x.Cond.Pos()):off(x.Cond.End())])
					emit(x.Cond.Pos(), x.Cond.End(), "("+c+") && false", "loop never runs: "+c)
				}
			case *ast.BinaryExpr:
				swap := map[token.Token]string{token.LSS: "<=", token.LEQ: "<", token.GTR: ">=", token.GEQ: ">", token.EQL: "!=", token.NEQ: "==",
					token.LAND: "||", token.LOR: "&&", token.ADD: "-", token.SUB: "+"}
				if r, ok := swap[x.Op]; ok {
					// skip string concatenation in log/format arguments: cheap heuristic - both sides literal strings
					if bl, ok := x.X.(*ast.BasicLit); ok && bl.Kind == token.STRING {
						return true
					}
					emit(x.OpPos, x.OpPos+token.Pos(len(x.Op.String())), r, fmt.Sprintf("%s -> %s in: %s", x.Op, r, trunc(string(src[off(x.Pos()):off(x.End())]))))
				}
			case *ast.ExprStmt:
				if isLog(x.X) {
					return true
				}
				if _, ok := x.X.(*ast.CallExpr); ok {
					emit(x.Pos(), x.End(), "", "drop call: "+trunc(string(src[off(x.Pos()):off(x.End())])))
				}
			case *ast.AssignStmt:
				if x.Tok == token.DEFINE {
					return true
				}
				emit(x.Pos(), x.End(), "", "drop assignment: "+trunc(string(src[off(x.Pos()):off(x.End())])))
			case *ast.IncDecStmt:
				emit(x.Pos(), x.End(), "", "drop: "+trunc(string(src[off(x.Pos()):off(x.End())])))
			case *ast.SendStmt:
				emit(x.Pos(), x.End(), "", "drop send: "+trunc(string(src[off(x.Pos()):off(x.End())])))
			case *ast.GoStmt:
				emit(x.Pos(), x.End(), "", "drop go: "+trunc(string(src[off(x.Pos()):off(x.End())])))
			case *ast.DeferStmt:
				emit(x.Pos(), x.End(), "", "drop defer: "+trunc(string(src[off(x.Pos()):off(x.End())])))
			case *ast.BranchStmt:
				if x.Tok == token.CONTINUE || x.Tok == token.BREAK {
					emit(x.Pos(), x.End(), "", "drop "+x.Tok.String())
				}
			case *ast.ReturnStmt:
				if len(x.Results) == 0 {
					emit(x.Pos(), x.End(), "", "drop bare return")
				}
			case *ast.BasicLit:
				if x.Kind == token.INT && (x.Value == "0" || x.Value == "1") {
					emit(x.Pos(), x.End(), map[string]string{"0": "1", "1": "0"}[x.Value], "literal "+x.Value+" flipped")
				}
			case *ast.Ident:
				if x.Name == "true" || x.Name == "false" {
					emit(x.Pos(), x.End(), map[string]string{"true": "false", "false": "true"}[x.Name], "literal "+x.Name+" flipped")
				}
			}
			return true
		})
	}
}

func trunc(s string) string {
	s = strings.Join(strings.Fields(s), " ")
	if len(s) > 90 {
		return s[:90] + "..."
	}
	return s
}

#!/bin/bash
# usage: tools/trypatch.sh <prop> <patchfile>   -- run the <prop> check on a scratch worktree with the patch applied
set -u
export GOFLAGS=-mod=mod GOPROXY=off
prop=$1; patch=$(readlink -f $2)
wt=$(mktemp -d /tmp/gocv-try.XXXXXX)
git -C /repo worktree add -q --detach "$wt" HEAD >/dev/null 2>&1 || { echo "worktree failed"; exit 2; }
(cd /repo && git ls-files -o --exclude-standard -- '*_verif.go' | while read f; do mkdir -p "$wt/$(dirname $f)"; cp "$f" "$wt/$f"; done)
(cd /repo && git diff -- '*_verif.go' | git -C "$wt" apply 2>/dev/null)
git -C "$wt" apply "$patch" || { echo "patch does not apply"; }
(cd $wt && go build ./... ) || echo "BUILD FAILED"
VERIF_OUT="$wt/.verifout" /verif/bin/gocv check --repo "$wt" --property "$prop" --tier quick 2>&1 | grep -E "^(VIOLATION|KNOWN|TOOL|check|ok|FAIL)|obligations" | sed 's/replay=.*replays\/[^/]*\//replay=/' | head -${3:-12}
echo "exit=${PIPESTATUS[0]}"
git -C /repo worktree remove --force "$wt" >/dev/null 2>&1; rm -rf "$wt"
